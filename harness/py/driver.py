#!/usr/bin/env python3
"""C19 Python driver: bounded-exhaustive enumeration of API call sequences on the real sudachipy
extension, compared with a JSON oracle produced by the Rust library for the same world.

usage: driver.py <pyroot> <config.json> <resource_dir> <oracle.json> <depth> [threads]
Prints 'FAIL <sequence> :: <what>' lines (at most 20) and a final 'DONE sequences=<n> calls=<n> fails=<n>'.
Exit code 0 = no failure, 1 = failures.  A crash of the interpreter shows up as a signal / missing DONE line.
"""
import itertools
import os
import json
import warnings
import sys
import threading

pyroot, config_path, resource_dir, oracle_path, depth = sys.argv[1:6]
n_threads = int(sys.argv[6]) if len(sys.argv) > 6 else 0
depth = int(depth)
sys.path.insert(0, pyroot)
import sudachipy  # noqa: E402
from sudachipy import Dictionary, SplitMode, MorphemeList  # noqa: E402

ORACLE = json.load(open(oracle_path, encoding="utf-8"))
TEXTS = ORACLE["texts"]
QUERIES = ORACLE["queries"]
MODES = {"A": SplitMode.A, "B": SplitMode.B, "C": SplitMode.C}

fails = []
n_calls = 0
n_seq = 0


def fail(seq, what):
    if len(fails) < 20:
        print("FAIL %s :: %s" % (json.dumps(seq, ensure_ascii=False), what), flush=True)
    fails.append(what)


def fields_of(m, text, cfg):
    """observable fields of a morpheme according to the tokenizer configuration"""
    d = {
        "begin": m.begin(),
        "end": m.end(),
        "raw_surface": m.raw_surface(),
        "is_oov": m.is_oov(),
        "word_id": m.word_id(),
        "dictionary_id": m.dictionary_id(),
    }
    want = cfg["fields"]
    if want is None or "pos" in want:
        d["pos"] = list(m.part_of_speech())
    if want is None or "normalized_form" in want:
        d["normalized_form"] = m.normalized_form()
    if want is None:
        d["dictionary_form"] = m.dictionary_form()
        d["reading_form"] = m.reading_form()
        d["synonym_group_ids"] = list(m.synonym_group_ids())
    d["surface"] = m.surface()
    return d


def expect_of(e, cfg):
    d = {k: e[k] for k in ("begin", "end", "raw_surface", "is_oov", "word_id", "dictionary_id")}
    want = cfg["fields"]
    if want is None or "pos" in want:
        d["pos"] = e["pos"]
    if want is None or "normalized_form" in want:
        d["normalized_form"] = e["normalized_form"]
    if want is None:
        d["dictionary_form"] = e["dictionary_form"]
        d["reading_form"] = e["reading_form"]
        d["synonym_group_ids"] = e["synonym_group_ids"]
    proj = cfg["projection"]
    if proj is None:
        # no override: the projection the Dictionary was configured with
        proj = cfg.get("dict_projection")
    if proj == "normalized":
        d["surface"] = e["normalized_form"]
    elif proj == "reading":
        d["surface"] = e["reading_form"]
    else:
        d["surface"] = e["raw_surface"]
    return d


def check_list(seq, ms, text, expected, cfg, what):
    global n_calls
    n_calls += 1
    got = [fields_of(m, text, cfg) for m in ms]
    exp = [expect_of(e, cfg) for e in expected]
    if got != exp:
        fail(seq, "%s: %r != library %r" % (what, got[:4], exp[:4]))
        return
    if len(ms) != ms.size():
        fail(seq, "%s: len() %d != size() %d" % (what, len(ms), ms.size()))
    for m in ms:
        if text is not None and text[m.begin():m.end()] != m.raw_surface():
            fail(seq, "%s: text[%d:%d]=%r but raw_surface()=%r" % (what, m.begin(), m.end(), text[m.begin():m.end()], m.raw_surface()))
    # the rest of the list / morpheme protocol
    n = len(ms)
    if bool(ms) != (n != 0):
        fail(seq, "%s: bool(list) is %r for %d morphemes" % (what, bool(ms), n))
    if str(ms) != " ".join(m.raw_surface() for m in ms):
        fail(seq, "%s: str(list) %r is not the space-joined surfaces" % (what, str(ms)))
    repr(ms)
    for i, m in enumerate(ms):
        e = expected[i]
        for j in (i, i - n):
            mi = ms[j]
            if (mi.begin(), mi.end(), mi.raw_surface(), mi.word_id()) != (m.begin(), m.end(), m.raw_surface(), m.word_id()):
                fail(seq, "%s: list[%d] is not morpheme %d of the iteration" % (what, j, i))
        if len(m) != m.end() - m.begin():
            fail(seq, "%s: len(morpheme) %d but end-begin = %d" % (what, len(m), m.end() - m.begin()))
        if str(m) != m.surface():
            fail(seq, "%s: str(morpheme) %r != surface() %r" % (what, str(m), m.surface()))
        repr(m)
        want = cfg["fields"]
        if want is None or "pos" in want:
            if m.part_of_speech_id() != e["pos_id"]:
                fail(seq, "%s: part_of_speech_id() %r != library %r" % (what, m.part_of_speech_id(), e["pos_id"]))
        if want is None:
            with warnings.catch_warnings():
                warnings.simplefilter("ignore")
                wi = m.get_word_info()
            got = (wi.surface, wi.head_word_length, wi.length(), wi.pos_id, wi.normalized_form, wi.dictionary_form_word_id, wi.dictionary_form, wi.reading_form,
                   list(wi.a_unit_split), list(wi.b_unit_split), list(wi.word_structure), list(wi.synonym_group_ids))
            w = e["wi"]
            exp_wi = (w["surface"], w["head_word_length"], w["head_word_length"], e["pos_id"], e["normalized_form"], w["dictionary_form_word_id"], e["dictionary_form"], e["reading_form"],
                      w["a_unit_split"], w["b_unit_split"], w["word_structure"], e["synonym_group_ids"])
            if got != exp_wi:
                fail(seq, "%s: get_word_info() of morpheme %d is %r, library %r" % (what, i, got, exp_wi))
    for bad in (n, -n - 1):
        try:
            ms[bad]
            fail(seq, "%s: list[%d] of a list of %d did not raise" % (what, bad, n))
        except IndexError:
            pass


def run_sequence(dic, cfg, seq):
    """execute one call sequence on fresh objects"""
    mode_name = cfg["mode"]
    kwargs = {}
    if cfg["fields"] is not None:
        kwargs["fields"] = set(cfg["fields"])
    if cfg["projection"] is not None:
        kwargs["projection"] = cfg["projection"]
    tok = dic.create(MODES[mode_name], **kwargs)
    reuse = None  # the list passed as out=
    reuse2 = None
    cur = None  # (list, text, expected, mode)
    held = None
    for op in seq:
        kind = op[0]
        if kind == "T":
            t = TEXTS[op[1]]
            ms = tok.tokenize(t)
            check_list(seq, ms, t, ORACLE["analyses"][t][mode_name], cfg, "tokenize(%r)" % t)
            cur = (ms, t, mode_name)
        elif kind == "TM":
            t = TEXTS[op[1]]
            ms = tok.tokenize(t, MODES[op[2]])
            check_list(seq, ms, t, ORACLE["analyses"][t][op[2]], cfg, "tokenize(%r, %s)" % (t, op[2]))
            if str(tok.mode) != str(MODES[mode_name]):
                fail(seq, "per-call mode %s changed tokenizer.mode to %s" % (op[2], tok.mode))
            cur = (ms, t, op[2])
        elif kind == "TME":
            # a per-call mode on an input that is rejected (too long): must raise an ordinary
            # exception and leave the tokenizer as it was
            try:
                tok.tokenize("あ" * 16384, MODES[op[1]])
                fail(seq, "over-long input was accepted")
            except Exception:
                pass
            if str(tok.mode) != str(MODES[mode_name]):
                fail(seq, "a failed call with per-call mode %s changed tokenizer.mode to %s" % (op[1], tok.mode))
            cur = None
        elif kind == "TO":
            t = TEXTS[op[1]]
            if reuse is None:
                reuse = tok.tokenize(TEXTS[0])
            ms = tok.tokenize(t, out=reuse)
            if ms is not reuse:
                fail(seq, "tokenize(out=L) returned a different list")
            check_list(seq, ms, t, ORACLE["analyses"][t][mode_name], cfg, "tokenize(%r, out=L)" % t)
            cur = (ms, t, mode_name)
        elif kind in ("S", "SO"):
            if cur is None or len(cur[0]) == 0:
                continue
            if cfg["fields"] is not None:
                continue  # split fields were not requested for this tokenizer: nothing is promised
            ms, t, m_used = cur
            idx = op[2] % len(ms)
            m = ms[idx]
            smode = op[1]
            if kind == "SO":
                if reuse2 is None:
                    # a list of the same tokenizer (it carries the tokenizer's projection), holding
                    # the morphemes of another text
                    reuse2 = tok.tokenize(TEXTS[1])  # NOT empty: a split into it must replace its contents
                sub = m.split(MODES[smode], out=reuse2)
            else:
                sub = m.split(MODES[smode])
            exp_parent = ORACLE["analyses"][t][m_used][idx]
            exp = exp_parent["split_" + smode] if smode != "C" else []
            if not exp:
                exp = [exp_parent]
            check_list(seq, sub, t, exp, cfg, "%r[%d].split(%s%s)" % (t, idx, smode, ", out=L2" if kind == "SO" else ""))
        elif kind in ("LK", "LKO"):
            q = QUERIES[op[1]]
            if kind == "LKO":
                if reuse is None:
                    reuse = tok.tokenize(TEXTS[0])
                ms = dic.lookup(q, out=reuse)
            else:
                ms = dic.lookup(q)
            got = sorted((m.word_id(), m.dictionary_id(), m.raw_surface(), tuple(m.part_of_speech())) for m in ms)
            exp = sorted((e["word_id"], e["dictionary_id"], q, tuple(e["pos"])) for e in ORACLE["lookups"][q])
            global n_calls
            n_calls += 1
            if got != exp:
                fail(seq, "lookup(%r): %r != library %r" % (q, got, exp))
            cur = None
        elif kind == "HOLD":
            if cur is not None and len(cur[0]) > 0:
                held = cur[0][len(cur[0]) - 1]
        elif kind == "USE":
            if held is not None:
                # the list the morpheme came from may have been reused: any answer or a Python
                # exception is fine, crashing the interpreter is not
                try:
                    held.surface()
                    held.part_of_speech()
                    held.begin()
                    held.end()
                    held.normalized_form()
                    held.get_word_info()
                    len(held)
                    held.split(SplitMode.A)
                except BaseException as e:
                    if isinstance(e, (KeyboardInterrupt, SystemExit)):
                        raise


def alphabet():
    ops = []
    for i in range(len(TEXTS)):
        ops.append(("T", i))
        ops.append(("TO", i))
    for i in range(min(3, len(TEXTS))):
        for m in ("A", "B"):
            ops.append(("TM", i, m))
    for m in ("A", "B"):
        ops.append(("S", m, 0))
        ops.append(("S", m, 1))
        ops.append(("SO", m, 0))
    # splitting in mode C never splits: the result is the morpheme itself, also into a reused list
    ops.append(("S", "C", 0))
    ops.append(("SO", "C", 1))
    for i in range(len(QUERIES)):
        ops.append(("LK", i))
        ops.append(("LKO", i))
    ops.append(("TME", "A"))
    ops.append(("HOLD",))
    ops.append(("USE",))
    return ops


def main():
    global n_seq
    dic = Dictionary(config_path=config_path, resource_dir=resource_dir)
    configs = [
        {"mode": "C", "fields": None, "projection": None},
        {"mode": "A", "fields": None, "projection": None},
        {"mode": "C", "fields": ["pos", "normalized_form"], "projection": None},
        {"mode": "B", "fields": None, "projection": "normalized"},
        {"mode": "C", "fields": None, "projection": "reading"},
    ]
    ops = alphabet()
    # a second Dictionary whose configuration file asks for a projection: tokenizers created from it use that
    # projection unless create() names another one - "surface" included
    with open(config_path, encoding="utf-8") as f:
        cfg2 = json.load(f)
    cfg2["projection"] = "normalized"
    path2 = os.path.join(os.path.dirname(os.path.abspath(config_path)), "sudachi_projection_normalized.json")
    with open(path2, "w", encoding="utf-8") as f:
        json.dump(cfg2, f, ensure_ascii=False)
    dic2 = Dictionary(config_path=path2, resource_dir=resource_dir)
    configs2 = [
        {"mode": "C", "fields": None, "projection": None, "dict_projection": "normalized"},
        {"mode": "C", "fields": None, "projection": "surface", "dict_projection": "normalized"},
        {"mode": "A", "fields": None, "projection": "reading", "dict_projection": "normalized"},
        {"mode": "B", "fields": None, "projection": "normalized", "dict_projection": "normalized"},
    ]
    for cfg in configs2:
        kwargs = {}
        if cfg["projection"] is not None:
            kwargs["projection"] = cfg["projection"]
        tok = dic2.create(MODES[cfg["mode"]], **kwargs)
        for t in ORACLE.get("extra_texts", []):
            n_seq += 1
            try:
                ms = tok.tokenize(t)
                check_list([["X2", t, cfg["projection"]]], ms, t, ORACLE["analyses"][t][cfg["mode"]], cfg, "tokenize(extra text), Dictionary configured with projection=normalized, create(projection=%r)" % (cfg["projection"],))
            except BaseException as e:
                if isinstance(e, (KeyboardInterrupt, SystemExit)):
                    raise
                fail([["X2", t]], "unexpected exception %s: %s" % (type(e).__name__, e))
        for d in range(1, max(1, depth - 1) + 1):
            for seq in itertools.product(ops, repeat=d):
                n_seq += 1
                try:
                    run_sequence(dic2, cfg, list(seq))
                except BaseException as e:
                    if isinstance(e, (KeyboardInterrupt, SystemExit)):
                        raise
                    fail(list(seq), "unexpected exception %s: %s (Dictionary configured with projection=normalized)" % (type(e).__name__, e))
    # single analyses of the extra texts under every configuration
    for cfg in configs:
        kwargs = {}
        if cfg["fields"] is not None:
            kwargs["fields"] = set(cfg["fields"])
        if cfg["projection"] is not None:
            kwargs["projection"] = cfg["projection"]
        tok = dic.create(MODES[cfg["mode"]], **kwargs)
        for t in ORACLE.get("extra_texts", []):
            n_seq += 1
            try:
                ms = tok.tokenize(t)
                check_list([["X", t]], ms, t, ORACLE["analyses"][t][cfg["mode"]], cfg, "tokenize(extra text)")
            except BaseException as e:
                if isinstance(e, (KeyboardInterrupt, SystemExit)):
                    raise
                fail([["X", t]], "unexpected exception %s: %s" % (type(e).__name__, e))
    for cfg in configs:
        for d in range(1, depth + 1):
            for seq in itertools.product(ops, repeat=d):
                # sequences whose last operation produces nothing to check are prefixes of longer ones
                n_seq += 1
                try:
                    run_sequence(dic, cfg, list(seq))
                except BaseException as e:  # a Python exception is not a crash, but these calls must not raise
                    # (pyo3's PanicException derives from BaseException: a Rust panic inside the extension)
                    if isinstance(e, (KeyboardInterrupt, SystemExit)):
                        raise
                    fail(list(seq), "unexpected exception %s: %s" % (type(e).__name__, e))
    # non-deciding supplement: Python threads sharing one Dictionary (the GIL is released during analysis)
    if n_threads > 0:
        errors = []

        def worker(k):
            tok = dic.create(MODES["ABC"[k % 3]])
            for rep in range(300):
                t = TEXTS[(k + rep) % len(TEXTS)]
                ms = tok.tokenize(t)
                got = [(m.begin(), m.end(), m.word_id(), m.normalized_form()) for m in ms]
                exp = [(e["begin"], e["end"], e["word_id"], e["normalized_form"]) for e in ORACLE["analyses"][t]["ABC"[k % 3]]]
                if got != exp:
                    errors.append((k, t, got, exp))
                    return

        ths = [threading.Thread(target=worker, args=(k,)) for k in range(n_threads)]
        for t in ths:
            t.start()
        for t in ths:
            t.join()
        for e in errors[:3]:
            fail(["threads"], "thread %d: %r analysed as %r, library %r" % e)
        print("THREADS threads=%d analyses=%d errors=%d" % (n_threads, n_threads * 300, len(errors)))
    print("DONE sequences=%d calls=%d fails=%d" % (n_seq, n_calls, len(fails)), flush=True)
    sys.exit(1 if fails else 0)


main()
