//! C16 – sentence splitting partitions the text and breaks only after terminators.

use crate::common::evidence::{Report, Tier};
use crate::common::explore::*;
use crate::common::findings::Failure;
use crate::common::panics::{catch, PanicInfo};
use crate::common::refmodel::*;
use crate::common::worlds::*;
use serde_json::{json, Value};
use std::sync::Arc;
use sudachi::analysis::stateless_tokenizer::DictionaryAccess;
use sudachi::sentence_splitter::{SentenceSplitter, SplitSentences};

const PERIODS: &str = "。？！♪…?!";
const DOTS: &str = ".．";
const COMMAS: &str = ",，、";
const OPEN: &str = "({｛[（「【『［≪〔“";
const CLOSE: &str = ")}]）」｝】』］〕≫”";

fn level(s: &str) -> usize {
    let mut l = 0usize;
    for c in s.chars() {
        if OPEN.contains(c) {
            l += 1;
        } else if CLOSE.contains(c) && l > 0 {
            l -= 1;
        }
    }
    l
}

/// does the sentence end with terminator+ (closer | comma | terminator)* ?
fn ends_with_terminator(s: &str) -> bool {
    // strip the optional tail
    let cs: Vec<char> = s.chars().collect();
    let mut i = cs.len();
    let mut saw_terminator = false;
    // trailing <br> tags count as characters of a terminator when repeated
    loop {
        if i >= 4 {
            let tag: String = cs[i - 4..i].iter().collect();
            if tag == "<br>" || tag == "<BR>" {
                // need at least two consecutive tags
                let mut n = 0;
                let mut j = i;
                while j >= 4 {
                    let t: String = cs[j - 4..j].iter().collect();
                    if t == "<br>" || t == "<BR>" {
                        n += 1;
                        j -= 4;
                    } else {
                        break;
                    }
                }
                if n >= 2 {
                    return true;
                }
                return saw_terminator;
            }
        }
        if i == 0 {
            break;
        }
        let c = cs[i - 1];
        if PERIODS.contains(c) || DOTS.contains(c) {
            saw_terminator = true;
            i -= 1;
        } else if c == '・' {
            // an ellipsis of three or more dots
            let mut n = 0;
            let mut j = i;
            while j > 0 && cs[j - 1] == '・' {
                n += 1;
                j -= 1;
            }
            if n >= 3 {
                return true;
            }
            return saw_terminator;
        } else if CLOSE.contains(c) || COMMAS.contains(c) {
            i -= 1;
        } else {
            break;
        }
    }
    saw_terminator
}

pub struct SentSpace {
    pub world: Arc<World>,
    pub alpha: Vec<Sym>,
    pub bounds: TreeBounds,
    pub limits: Vec<usize>,
}

impl SentSpace {
    /// multi-character dictionary words that cover or end at byte `pos` of `slice`, starting within the look-back
    fn crossing_word(&self, slice: &str, pos: usize, multi_only: bool) -> Option<String> {
        let lex = self.world.dict.lexicon();
        let start = pos.saturating_sub(30);
        for i in start..pos {
            if !slice.is_char_boundary(i) {
                continue;
            }
            for e in lex.lookup(slice.as_bytes(), i) {
                if e.end >= pos {
                    let w = &slice[i..e.end];
                    if !multi_only || w.chars().count() > 1 {
                        return Some(w.to_string());
                    }
                }
            }
        }
        None
    }

    fn check_one(&self, text: &str, limit: usize, with_checker: bool, o: &mut Outcome) {
        let ctx = format!("text {:?} limit {} checker {}", text, limit, if with_checker { "dictionary" } else { "none" });
        let r = catch(|| {
            let lex = self.world.dict.lexicon();
            let sp = if with_checker { SentenceSplitter::with_limit(limit).with_checker(lex) } else { SentenceSplitter::with_limit(limit) };
            let mut out: Vec<(std::ops::Range<usize>, String)> = Vec::new();
            for (r, s) in sp.split(text) {
                out.push((r, s.to_string()));
                if out.len() > text.len() + 2 {
                    break;
                }
            }
            out
        });
        self.judge(text, limit, with_checker, ctx, r, o);
    }

    /// the same splitter object and the same text buffer (same address, as a line buffer of a reader would be) used for
    /// other texts first: the sentences of `text` have to satisfy the same statement
    fn check_reused(&self, text: &str, limit: usize, with_checker: bool, o: &mut Outcome) {
        const EARLIER: [&str; 2] = ["あいうえお。", "a!あ。な。な(。"];
        if text.is_empty() {
            return;
        }
        let lex = self.world.dict.lexicon();
        let sp = if with_checker { SentenceSplitter::with_limit(limit).with_checker(lex) } else { SentenceSplitter::with_limit(limit) };
        let mut buf = String::with_capacity(text.len() + 64);
        for earlier in EARLIER {
            let ctx = format!(
                "text {:?} limit {} checker {}, splitter and text buffer used for {:?} just before",
                text,
                limit,
                if with_checker { "dictionary" } else { "none" },
                earlier
            );
            let r = catch(|| {
                buf.clear();
                buf.push_str(earlier);
                let n = sp.split(&buf).take(earlier.len() + 2).count();
                std::hint::black_box(n);
                buf.clear();
                buf.push_str(text);
                let mut out: Vec<(std::ops::Range<usize>, String)> = Vec::new();
                for (r, s) in sp.split(&buf) {
                    out.push((r, s.to_string()));
                    if out.len() > text.len() + 2 {
                        break;
                    }
                }
                out
            });
            self.judge(text, limit, with_checker, ctx, r, o);
        }
    }

    fn judge(&self, text: &str, limit: usize, with_checker: bool, ctx: String, r: Result<Vec<(std::ops::Range<usize>, String)>, PanicInfo>, o: &mut Outcome) {
        o.evaluations += 1;
        let sents = match r {
            Err(p) => {
                o.fail(Failure::panic(&ctx, &p));
                return;
            }
            Ok(s) => s,
        };
        if sents.len() > text.len() + 1 {
            o.fail(Failure::new("does-not-terminate", format!("{}: more than {} sentences", ctx, text.len())));
            return;
        }
        // partition
        let mut pos = 0usize;
        for (i, (r, s)) in sents.iter().enumerate() {
            if r.start != pos || r.end <= r.start || r.end > text.len() || !text.is_char_boundary(r.start) || !text.is_char_boundary(r.end) {
                o.fail(Failure::new("not-a-partition", format!("{}: sentence {} has range {:?} (expected to start at {}) in {:?}", ctx, i, r, pos, sents.iter().map(|x| x.0.clone()).collect::<Vec<_>>())));
                return;
            }
            if &text[r.clone()] != s.as_str() {
                o.fail(Failure::new("slice-mismatch", format!("{}: sentence {} is {:?} but its range {:?} holds {:?}", ctx, i, s, r, &text[r.clone()])));
            }
            pos = r.end;
        }
        if pos != text.len() {
            o.fail(Failure::new("not-a-partition", format!("{}: sentences end at {} of {}", ctx, pos, text.len())));
            return;
        }
        if sents.len() > 1 {
            o.nontrivial = true;
        }
        for (i, (r, s)) in sents.iter().enumerate() {
            let last = i + 1 == sents.len();
            if !last {
                if !ends_with_terminator(s) {
                    o.fail(Failure::new("break-without-terminator", format!("{}: sentence {} {:?} is not the last one and does not end with a terminator", ctx, i, s)));
                }
                if level(s) > 0 {
                    o.fail(Failure::new("break-inside-brackets", format!("{}: the break after sentence {} {:?} lies inside an unclosed bracket pair", ctx, i, s)));
                }
                if with_checker {
                    // the detector sees the rest of the text from the sentence start
                    let slice = &text[r.start..];
                    if let Some(w) = self.crossing_word(slice, s.len(), true) {
                        o.fail(Failure::new("break-inside-dictionary-word", format!("{}: the break after sentence {} {:?} lies inside or at the end of the dictionary word {:?}", ctx, i, s, w)));
                    }
                }
            }
            // converse: an unvetoed plain terminator inside the sentence must have ended it
            let slice = &text[r.start..];
            let cs: Vec<(usize, char)> = s.char_indices().collect();
            for (k, &(b, c)) in cs.iter().enumerate() {
                if !"。！？".contains(c) {
                    continue;
                }
                let q_end = b + c.len_utf8();
                if q_end >= s.len() {
                    continue; // at the end of the sentence: it did end it
                }
                if k + 1 > limit {
                    continue; // outside the processing window
                }
                // the whole window must be known: characters after the terminator still inside the window do not matter
                let next = s[q_end..].chars().next().unwrap();
                if "とっでやの".contains(next) || PERIODS.contains(next) || DOTS.contains(next) || COMMAS.contains(next) || CLOSE.contains(next) || next == '・' || next == '<' {
                    continue;
                }
                if level(&s[..q_end]) > 0 {
                    continue;
                }
                if with_checker && self.crossing_word(slice, q_end, true).is_some() {
                    continue;
                }
                o.fail(Failure::new(
                    "terminator-did-not-end-sentence",
                    format!("{}: in sentence {} {:?} the terminator {:?} at byte {} is not bracketed, not followed by a quoting particle, not inside a multi-character dictionary word and inside the window, but no break follows it", ctx, i, s, c, b),
                ));
                break;
            }
        }
        o.observe(&sents.iter().map(|x| x.0.end).collect::<Vec<_>>());
    }
}

impl Space for SentSpace {
    type State = Vec<u8>;
    fn name(&self) -> String {
        "sentences/texts".into()
    }
    fn init(&self) -> Vec<Vec<u8>> {
        vec![vec![]]
    }
    fn next(&self, s: &Vec<u8>, out: &mut Vec<Vec<u8>>) {
        tree_next(&self.alpha, &self.bounds, s, out)
    }
    fn check(&self, s: &Vec<u8>) -> Outcome {
        let mut o = Outcome::new();
        let text = tree_text(&self.alpha, s);
        for &l in &self.limits {
            for ck in [false, true] {
                self.check_one(&text, l, ck, &mut o);
                if l == 2 || l == 4096 {
                    self.check_reused(&text, l, ck, &mut o);
                }
            }
        }
        o
    }
    fn describe(&self, s: &Vec<u8>) -> Value {
        json!({"symbols": s, "text": tree_text(&self.alpha, s)})
    }
    fn parse(&self, v: &Value) -> Option<Vec<u8>> {
        Some(v["symbols"].as_array()?.iter().filter_map(|x| x.as_u64().map(|n| n as u8)).collect())
    }
}

pub fn main(tier: Tier, replay: Option<String>) -> i32 {
    let mut rep = Report::new("C16", "model_checking", tier);
    rep.rule = "states = all texts within the bound over the sentence alphabet (kana, terminators 。！. ． ! ?, brackets ( ) 「 」, a backslash, quoting particle と, digit, letter, space, <br>, ・, comma, the dictionary words モー娘。, な。な, a! and !?, an astral character); each is split with window limits {1,2,3,5,4096} with and without the dictionary-based non-break checker (the lexicon lists 。 itself as a one-character entry); oracle: partition / slice equality / termination, every non-last sentence ends with terminator+ tail*, bracket level 0 at each break, no break inside or at the end of a multi-character dictionary word, and the converse on the class where every veto is plainly false; non-trivial = more than one sentence".into();
    rep.assumptions = vec![
        "the converse is asserted only for 。！？ not followed by と っ で や の / terminator / comma / closer / ・ / <, at bracket level 0, inside the window, not inside a multi-character dictionary word".into(),
        "bracket level is the saturating count restarted per sentence, evaluated at the break position".into(),
    ];
    let mut spec = spec_full("W-sent", false);
    spec.system.push(Row::new("な。な", 8, 8, 2914, P_NOUN));
    spec.system.push(Row::new("！？", 5, 5, 1000, P_SYM));
    // short ASCII words that end with a terminator (two and three bytes)
    spec.system.push(Row::new("a!", 5, 5, 1000, P_SYM));
    spec.system.push(Row::new("!?", 5, 5, 1000, P_SYM));
    // a long word of one-byte characters that ends with a terminator (it starts more than ten
    // characters, but fewer than thirty bytes, before the terminator)
    spec.system.push(Row::new("abcdefghijkl!", 5, 5, 1000, P_SYM));
    let world = Arc::new(World::build(spec).expect("W-sent"));
    let alpha = syms(&["あ", "。", "と"], &["！", ".", "．", "(", ")", "「", "」", "1", "a", " ", "<br>", "・", ",", "モー娘。", "な。な", "𠮷", "な", "？", "!", "?", "\\", "\u{20028}", "\u{2300d}", "abcdefghijkl!"]);
    // (the last two are astral characters whose low sixteen bits are those of `(` and `」`)
    let bounds = tier.pick(TreeBounds { full_len: 3, ext_len: 6, max_special: 2 }, TreeBounds { full_len: 4, ext_len: 7, max_special: 2 });
    let b = json!({"tree": bounds.to_json(), "limits": [1, 2, 3, 5, 4096], "checker": ["none", "dictionary"]});
    let mut jobs = vec![job(SentSpace { world, alpha: alpha.clone(), bounds: bounds.clone(), limits: vec![1, 2, 3, 5, 4096] }, Strategy::Dfs, Some(tier.pick(50, 3000)), b.clone())];
    // the same with the words that contain a terminator living in user dictionaries, while the
    // system dictionary holds shorter words starting at the same place (the checker consults all
    // layers: the order in which they answer must not matter)
    let mut spec = spec_full("W-sent-layers", false);
    spec.system.retain(|r| r.surface != "モー娘。");
    spec.system.push(Row::new("な", 8, 8, 3000, P_NOUN));
    spec.system.push(Row::new("モー", 8, 8, 3000, P_NOUN));
    spec.system.push(Row::new("！？", 5, 5, 1000, P_SYM));
    spec.users.push(vec![Row::new("な。な", 8, 8, 2914, P_NOUN), Row::new("な。", 8, 8, 2914, P_NOUN)]);
    spec.users.push(vec![Row::new("モー娘。", 6, 6, 2000, P_PROPN), Row::new("モ", 8, 8, 2914, P_NOUN)]);
    let world2 = Arc::new(World::build(spec).expect("W-sent-layers"));
    let bounds2 = tier.pick(TreeBounds { full_len: 3, ext_len: 5, max_special: 2 }, TreeBounds { full_len: 4, ext_len: 7, max_special: 2 });
    let b2 = json!({"tree": bounds2.to_json(), "limits": [2, 5, 4096], "checker": ["none", "dictionary"], "layers": "system + 2 user dictionaries"});
    jobs.push(job(SentSpace { world: world2, alpha, bounds: bounds2, limits: vec![2, 5, 4096] }, Strategy::Dfs, Some(tier.pick(50, 3000)), b2));
    drive(rep, jobs, replay)
}
