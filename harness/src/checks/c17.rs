//! C17 – character classes of a code point are the union of all definition lines covering it.
//!
//! State = definition file under construction (action = append one line from a menu); all
//! orders and duplicates are distinct states.  Every file that loads is queried on every code
//! point of the probe domain and compared with the naive union of covering lines.

use crate::common::evidence::{Report, Tier};
use crate::common::explore::*;
use crate::common::findings::Failure;
use crate::common::oovref::*;
use crate::common::panics::catch;
use crate::common::worlds::*;
use serde_json::{json, Value};
use sudachi::dic::category_type::CategoryType;
use sudachi::dic::character_category::CharacterCategory;

#[derive(Clone, Debug)]
pub struct Line {
    pub lo: u32,
    pub hi: u32,
    pub classes: Vec<&'static str>,
}

impl Line {
    /// every third line of the menu is written with lower-case hex digits, extra blanks and a
    /// trailing comment that names another class (comments are not part of the definition)
    fn text(&self) -> String {
        let decorated = (self.lo + 2 * self.hi + self.classes.len() as u32) % 3 == 0;
        if decorated {
            if self.lo == self.hi {
                format!("0x{:04x}   {}  # HIRAGANA 0x0000..0xFFFF", self.lo, self.classes.join("  "))
            } else {
                format!("0x{:04x}..0x{:04x}   {}  # HIRAGANA", self.lo, self.hi, self.classes.join("  "))
            }
        } else if self.lo == self.hi {
            format!("0x{:04X} {}", self.lo, self.classes.join(" "))
        } else {
            format!("0x{:04X}..0x{:04X} {}", self.lo, self.hi, self.classes.join(" "))
        }
    }
}

pub struct DefSpace {
    pub label: String,
    pub menu: Vec<Line>,
    pub max_lines: usize,
    pub probes: Vec<u32>,
}

fn file_text(menu: &[Line], s: &[u16]) -> String {
    let mut t = String::from("# character definition under test\n\nDEFAULT 0 1 0\n");
    for &i in s {
        t.push_str(&menu[i as usize].text());
        t.push('\n');
    }
    t
}

/// bytes of a tiny compiled system dictionary: the grammar the in-text observation hangs the
/// character definition on
fn grammar_bytes() -> &'static [u8] {
    static BYTES: std::sync::OnceLock<&'static [u8]> = std::sync::OnceLock::new();
    BYTES.get_or_init(|| {
        let b = compile_system(&Matrix::distinct(2, 2).to_text(), &rows_to_csv(&[Row::new("a", 0, 0, 1, P_NOUN)])).expect("tiny dictionary");
        Box::leak(b.into_boxed_slice())
    })
}

/// the classes a character is given inside a text (what plugins and OOV providers see) must be
/// the same union: the probe characters in ascending, descending and alternating order
pub fn compare_in_text(def_text: &str, def: &RefCharDef, probes: &[u32], ctx: &str, o: &mut Outcome) {
    use sudachi::input_text::{InputBuffer, InputTextIndex};
    let chars: Vec<char> = probes.iter().filter_map(|&cp| char::from_u32(cp)).collect();
    if chars.is_empty() {
        return;
    }
    let mut orders: Vec<Vec<char>> = vec![chars.clone(), chars.iter().rev().cloned().collect()];
    let mut alt = Vec::new();
    for i in 0..chars.len() {
        alt.push(if i % 2 == 0 { chars[i / 2] } else { chars[chars.len() - 1 - i / 2] });
    }
    orders.push(alt);
    for order in orders {
        let text: String = order.iter().collect();
        o.evaluations += 1;
        let r = catch(|| {
            let cc = CharacterCategory::from_reader(def_text.as_bytes()).map_err(|e| e.to_string())?;
            let mut g = sudachi::dic::grammar::Grammar::parse(grammar_bytes(), sudachi::dic::header::Header::STORAGE_SIZE).map_err(|e| e.to_string())?;
            g.set_character_category(cc);
            let mut buf = InputBuffer::new();
            buf.reset().push_str(&text);
            buf.start_build().map_err(|e| e.to_string())?;
            buf.build(&g).map_err(|e| e.to_string())?;
            Ok::<_, String>((0..order.len()).map(|i| buf.cat_at_char(i)).collect::<Vec<_>>())
        });
        match r {
            Err(p) => o.fail(Failure::panic(&format!("{} building a text buffer", ctx), &p)),
            Ok(Err(e)) => o.fail(Failure::new("text-buffer-error", format!("{}: {}", ctx, e))),
            Ok(Ok(obs)) => {
                for (i, c) in order.iter().enumerate() {
                    let exp = def.classes(*c);
                    if obs[i] != exp {
                        o.fail(Failure::new("classes-in-text-differ", format!("{}: in the text {:?} character {} U+{:04X} has classes {:?}, union of covering lines is {:?}", ctx, text.escape_unicode().to_string(), i, *c as u32, obs[i], exp)));
                        break;
                    }
                }
            }
        }
    }
}

pub fn compare(cc: &CharacterCategory, def: &RefCharDef, probes: &[u32], ctx: &str, o: &mut Outcome) {
    for &cp in probes {
        let c = match char::from_u32(cp) {
            Some(c) => c,
            None => continue,
        };
        let obs = cc.get_category_types(c);
        let exp = def.classes(c);
        if obs != exp {
            o.fail(Failure::new("classes-differ", format!("{}: U+{:04X} has classes {:?}, union of covering lines is {:?}", ctx, cp, obs, exp)));
        }
    }
    // iter(): ranges are contiguous from 0 and agree with point queries.  (iter() of a definition
    // without any range line panics in the implementation; that API is not what C17 is about,
    // so it is only consulted when there is at least one range line - noted in DESIGN.md.)
    if def.lines.is_empty() {
        return;
    }
    let mut prev_end = 0u32;
    for (r, cat) in cc.iter() {
        if r.start as u32 != prev_end {
            o.fail(Failure::new("iter-not-contiguous", format!("{}: iter() range starts at U+{:04X} after U+{:04X}", ctx, r.start as u32, prev_end)));
        }
        if (r.start as u32) < (r.end as u32) {
            if cc.get_category_types(r.start) != cat {
                o.fail(Failure::new("iter-disagrees", format!("{}: iter() says {:?} for U+{:04X}.., point query says {:?}", ctx, cat, r.start as u32, cc.get_category_types(r.start))));
            }
            if def.classes(r.start) != cat {
                o.fail(Failure::new("iter-disagrees-ref", format!("{}: iter() says {:?} at U+{:04X}, union of covering lines is {:?}", ctx, cat, r.start as u32, def.classes(r.start))));
            }
        }
        prev_end = r.end as u32;
    }
}

impl Space for DefSpace {
    type State = Vec<u16>;
    fn name(&self) -> String {
        self.label.clone()
    }
    fn init(&self) -> Vec<Vec<u16>> {
        vec![vec![]]
    }
    fn next(&self, s: &Vec<u16>, out: &mut Vec<Vec<u16>>) {
        if s.len() >= self.max_lines {
            return;
        }
        for i in 0..self.menu.len() {
            let mut n = s.clone();
            n.push(i as u16);
            out.push(n);
        }
    }
    fn check(&self, s: &Vec<u16>) -> Outcome {
        let mut o = Outcome::new();
        o.evaluations = 1;
        let text = file_text(&self.menu, s);
        let r = catch(|| CharacterCategory::from_reader(text.as_bytes()));
        match r {
            Err(p) => o.fail(Failure::panic(&format!("loading {:?}", text), &p)),
            Ok(Err(_)) => {
                // a file that does not load is outside the property
                o.count("rejected_files", 1);
            }
            Ok(Ok(cc)) => {
                let def = RefCharDef::parse(&text);
                let ctx = format!("file {:?}", text);
                compare(&cc, &def, &self.probes, &ctx, &mut o);
                compare_in_text(&text, &def, &self.probes, &ctx, &mut o);
                // overlapping / nested / adjacent lines make a file non-trivial
                let mut nt = false;
                for (i, &a) in s.iter().enumerate() {
                    for &b in &s[i + 1..] {
                        let (x, y) = (&self.menu[a as usize], &self.menu[b as usize]);
                        if x.lo <= y.hi + 1 && y.lo <= x.hi + 1 {
                            nt = true;
                        }
                    }
                }
                o.nontrivial = nt;
                o.observe(&self.probes.iter().map(|&cp| char::from_u32(cp).map(|c| cc.get_category_types(c).bits()).unwrap_or(0)).collect::<Vec<_>>());
            }
        }
        o
    }
    fn describe(&self, s: &Vec<u16>) -> Value {
        json!({"lines": s, "file": file_text(&self.menu, s)})
    }
    fn parse(&self, v: &Value) -> Option<Vec<u16>> {
        Some(v["lines"].as_array()?.iter().filter_map(|x| x.as_u64().map(|n| n as u16)).collect())
    }
}

fn menu_low(points: &[u32], sets: &[Vec<&'static str>]) -> Vec<Line> {
    let mut m = Vec::new();
    for (i, &a) in points.iter().enumerate() {
        for &b in &points[i..] {
            for s in sets {
                m.push(Line { lo: a, hi: b, classes: s.clone() });
            }
        }
    }
    m
}

pub fn main(tier: Tier, replay: Option<String>) -> i32 {
    let mut rep = Report::new("C17", "model_checking", tier);
    rep.rule = "states = definition files built line by line from a menu of ranges x class sets (all orders, duplicates allowed) up to max_lines; every file that loads is queried on every probe code point (all range ends and their neighbours) and compared with the naive union of covering lines; non-trivial = two lines overlap, nest or touch; plus every Unicode scalar value against each char.def shipped in the repository".into();
    rep.assumptions = vec!["files that fail to load (e.g. a range ending at U+D7FF or U+10FFFF, whose exclusive end is not a scalar value) are outside the property and only counted".into()];
    let mut jobs: Vec<Box<dyn AnyJob>> = Vec::new();
    // (an explicit DEFAULT class is a class like any other)
    let sets: Vec<Vec<&'static str>> = vec![vec!["KANJI"], vec!["ALPHA"], vec!["KANJI", "ALPHA"], vec!["NOOOVBOW"], vec!["DEFAULT"]];
    // low domain incl. 0
    let pts: Vec<u32> = tier.pick(vec![0, 1, 2, 3, 4, 5], vec![0, 1, 2, 3, 4, 5, 6, 7]);
    let menu = menu_low(&pts, &sets);
    let probes: Vec<u32> = (0..=10).collect();
    let b = json!({"menu_lines": menu.len(), "max_lines": tier.pick(3, 3), "domain": pts});
    jobs.push(job(DefSpace { label: "chardef/low-domain".into(), menu, max_lines: 3, probes }, Strategy::Dfs, Some(tier.pick(40, 1500)), b));
    if tier == Tier::Thorough {
        let menu = menu_low(&[0, 1, 2, 3], &sets[..3].to_vec());
        let b = json!({"menu_lines": menu.len(), "max_lines": 4, "domain": [0, 1, 2, 3]});
        jobs.push(job(DefSpace { label: "chardef/low-domain-4-lines".into(), menu, max_lines: 4, probes: (0..=5).collect() }, Strategy::Dfs, Some(1500), b));
    }
    // the class that names every class, and the two flags that are no classes, laid over each other in every order
    {
        let sets2: Vec<Vec<&'static str>> = vec![vec!["ALL"], vec!["NOOOVBOW"], vec!["NOOOVBOW2"], vec!["ALL", "NOOOVBOW"], vec!["KANJI"], vec!["USER4", "NOOOVBOW2"]];
        let menu = menu_low(&[0, 1, 2, 3], &sets2);
        let b = json!({"menu_lines": menu.len(), "max_lines": 3, "domain": [0, 1, 2, 3], "class_sets": sets2});
        jobs.push(job(DefSpace { label: "chardef/all-and-flags".into(), menu, max_lines: 3, probes: (0..=5).collect() }, Strategy::Dfs, Some(tier.pick(40, 900)), b));
    }
    // class names are names of DIFFERENT classes: for every pair of names, a character given the one and a character
    // given the other have no class in common (decided on what the reader reports, not on the crate's constants)
    {
        let names = ["DEFAULT", "SPACE", "KANJI", "SYMBOL", "NUMERIC", "ALPHA", "HIRAGANA", "KATAKANA", "KANJINUMERIC", "GREEK", "CYRILLIC", "USER1", "USER2", "USER3", "USER4", "NOOOVBOW", "NOOOVBOW2"];
        let mut cases: Vec<(&'static str, &'static str)> = Vec::new();
        for a in names {
            for b in names {
                if a != b {
                    cases.push((a, b));
                }
            }
        }
        let n = cases.len();
        jobs.push(job(
            CaseSpace {
                label: "chardef/pairs-of-class-names".into(),
                cases,
                check_fn: Box::new(|(a, b): &(&'static str, &'static str)| {
                    let mut o = Outcome::new();
                    o.evaluations = 1;
                    o.nontrivial = true;
                    let text = format!("DEFAULT 0 1 0\n0x0041 {}\n0x0042 {}\n0x0043 {} {}\n", a, b, a, b);
                    match catch(|| CharacterCategory::from_reader(text.as_bytes()).map(|cc| (cc.get_category_types('A'), cc.get_category_types('B'), cc.get_category_types('C'))).map_err(|e| e.to_string())) {
                        Err(p) => o.fail(Failure::panic(&format!("file {:?}", text), &p)),
                        Ok(Err(e)) => o.fail(Failure::new("definition-rejected", format!("file {:?}: {}", text, e))),
                        Ok(Ok((ca, cb, cc))) => {
                            if ca.is_empty() || cb.is_empty() || !(ca & cb).is_empty() {
                                o.fail(Failure::new("classes-differ", format!("file {:?}: U+0041 (class {}) reports {:?} and U+0042 (class {}) reports {:?}: two different class names must not share a class", text, a, ca, b, cb)));
                            }
                            if cc != (ca | cb) {
                                o.fail(Failure::new("classes-differ", format!("file {:?}: U+0043 (classes {} {}) reports {:?}, the two classes alone give {:?} and {:?}", text, a, b, cc, ca, cb)));
                            }
                            o.observe(&(ca.bits(), cb.bits()));
                        }
                    }
                    o
                }),
                describe_fn: Box::new(|(a, b): &(&'static str, &'static str)| json!({"first": a, "second": b})),
            },
            Strategy::Bfs,
            Some(60),
            json!({"pairs": n}),
        ));
    }
    // around the surrogate gap and the top of the code space
    let mut menu = Vec::new();
    for (lo, hi) in [
        (0xD7FDu32, 0xD7FDu32), (0xD7FD, 0xD7FE), (0xD7FE, 0xD7FE), (0xD7FC, 0xD7FE), (0xD7FE, 0xD7FF), (0xE000, 0xE000), (0xE000, 0xE001), (0xE001, 0xE002),
        (0xD7FD, 0xE001), (0x10FFFD, 0x10FFFD), (0x10FFFD, 0x10FFFE), (0x10FFFE, 0x10FFFE), (0x10FFFC, 0x10FFFE), (0x10FFFE, 0x10FFFF), (0xE000, 0x10FFFE), (0, 0x10FFFE),
    ] {
        for s in &sets[..2] {
            menu.push(Line { lo, hi, classes: s.clone() });
        }
    }
    let probes = vec![0, 1, 0xD7FB, 0xD7FC, 0xD7FD, 0xD7FE, 0xD7FF, 0xE000, 0xE001, 0xE002, 0xE003, 0x10FFFB, 0x10FFFC, 0x10FFFD, 0x10FFFE, 0x10FFFF];
    let b = json!({"menu_lines": menu.len(), "max_lines": tier.pick(3, 4)});
    jobs.push(job(DefSpace { label: "chardef/surrogate-gap-and-top".into(), menu, max_lines: tier.pick(3, 4), probes }, Strategy::Dfs, Some(tier.pick(30, 1500)), b));
    // wide ranges whose ends sit on the structural boundaries of the encodings (last ASCII / first
    // two-byte / last Latin-1 / two- to three-byte / BMP to astral), probed densely: every scalar
    // below U+0120 and the neighbours of every boundary (a table for "small" code points must not
    // lose its last entry)
    {
        let pts: Vec<u32> = vec![0x20, 0x7E, 0x7F, 0x80, 0xFF, 0x100, 0x7FF, 0x800, 0xFFFF, 0x10000];
        let mut menu = Vec::new();
        for (i, &a) in pts.iter().enumerate() {
            for &b in &pts[i..] {
                for s in &sets[..2] {
                    menu.push(Line { lo: a, hi: b, classes: s.clone() });
                }
            }
        }
        let mut probes: Vec<u32> = (0..0x120).collect();
        for &p in &pts {
            for d in [-2i64, -1, 0, 1, 2] {
                let v = p as i64 + d;
                if v >= 0x120 {
                    probes.push(v as u32);
                }
            }
        }
        probes.sort();
        probes.dedup();
        let b = json!({"menu_lines": menu.len(), "max_lines": 2, "boundaries": pts, "probes": probes.len()});
        jobs.push(job(DefSpace { label: "chardef/encoding-boundaries".into(), menu, max_lines: 2, probes }, Strategy::Dfs, Some(tier.pick(60, 1500)), b));
    }
    // shipped files: all scalars
    // ... and a generated file of a size and shape no hand-written one has: 600 single-point lines
    // carrying every combination of up to ten classes (more than 256 distinct class sets), lines that
    // name eight, nine and ten classes, in an order that is not sorted by code point
    let generated = {
        let names = ["KANJI", "ALPHA", "NUMERIC", "HIRAGANA", "KATAKANA", "GREEK", "CYRILLIC", "SYMBOL", "USER1", "USER2"];
        let mut lines: Vec<String> = Vec::new();
        for i in 1..=600u32 {
            let bits = (i * 37) % 1024;
            let cls: Vec<&str> = (0..10).filter(|b| bits & (1 << b) != 0).map(|b| names[b]).collect();
            if cls.is_empty() {
                continue;
            }
            lines.push(format!("0x{:04X} {}", 0x1000 + ((i * 7919) % 4000), cls.join(" ")));
        }
        lines.push(format!("0x3041..0x3096 {}", names[..8].join(" ")));
        lines.push(format!("0x30A1..0x30FA {}", names[..9].join(" ")));
        lines.push(format!("0x4E00..0x4E10 {}", names.join(" ")));
        format!("DEFAULT 0 1 0\n{}\n", lines.join("\n"))
    };
    for rel in ["resources/char.def", "sudachi/tests/resources/char.def", "python/tests/resources/char.def", "(generated: 600 points, >256 class sets, 8-10 classes per line)"] {
        let path = repo_root().join(rel);
        let text = if rel.starts_with('(') {
            generated.clone()
        } else {
            match std::fs::read_to_string(&path) {
                Ok(t) => t,
                Err(_) => continue,
            }
        };
        let chunks: Vec<u32> = (0..0x110000u32).step_by(4096).collect();
        let text2 = text.clone();
        let rel2 = rel.to_string();
        jobs.push(job(
            CaseSpace {
                label: format!("shipped/{}", rel),
                cases: chunks,
                check_fn: Box::new(move |start: &u32| {
                    let mut o = Outcome::new();
                    o.evaluations = 1;
                    o.nontrivial = true;
                    let cc = CharacterCategory::from_reader(text2.as_bytes()).expect("shipped char.def loads");
                    let def = RefCharDef::parse(&text2);
                    let probes: Vec<u32> = (*start..(*start + 4096).min(0x110000)).collect();
                    let mut o2 = Outcome::new();
                    // point queries only (iter() is checked once, on chunk 0)
                    for &cp in &probes {
                        if let Some(c) = char::from_u32(cp) {
                            let (a, b) = (cc.get_category_types(c), def.classes(c));
                            if a != b {
                                o2.fail(Failure::new("classes-differ", format!("{}: U+{:04X} has classes {:?}, union of covering lines is {:?}", rel2, cp, a, b)));
                            }
                        }
                    }
                    if *start == 0 {
                        compare(&cc, &def, &[0], &rel2, &mut o2);
                    }
                    o.failures = o2.failures;
                    o.observe(start);
                    o
                }),
                describe_fn: Box::new(|s: &u32| json!({"first_scalar": s, "count": 4096})),
            },
            Strategy::Bfs,
            Some(120),
            json!({"scalars": "all 1,112,064"}),
        ));
    }
    let _ = CategoryType::DEFAULT;
    drive(rep, jobs, replay)
}
