//! C04 – dictionary lookup returns exactly the entries that prefix-match the text.
//!
//! State = lexicon under construction (action = add one entry to the system dictionary or to one
//! of two user dictionaries); every state is compiled with the real builder, loaded, and every
//! byte offset of every probe text is looked up and compared with a naive scan of the rows.

use crate::common::evidence::{Report, Tier};
use crate::common::explore::*;
use crate::common::findings::Failure;
use crate::common::panics::catch;
use crate::common::refmodel::*;
use crate::common::worlds::*;
use serde_json::{json, Value};
use std::collections::BTreeMap;
use std::path::PathBuf;
use std::sync::Arc;
use sudachi::analysis::stateless_tokenizer::DictionaryAccess;
use sudachi::dic::subset::InfoSubset;
use sudachi::prelude::MorphemeList;

#[derive(Clone, Debug, PartialEq, Eq, Hash)]
pub struct Entry {
    pub key: String,
    pub indexed: bool,
    pub layer: u8,
}

pub struct LexSpace {
    pub dir: PathBuf,
    pub menu: Vec<Entry>,
    pub max_entries: usize,
    pub texts: Vec<String>,
    pub matrix: String,
}

type Obs = BTreeMap<(usize, u32), usize>; // (end, raw word id) -> multiplicity

fn rows_of(entries: &[Entry], layer: u8) -> Vec<Row> {
    // every present layer has a fixed indexed base entry so that its index is never empty
    // (the base entry of the second user dictionary asks for a computed cost: the loader then analyses "zz" with the
    // dictionaries loaded so far, i.e. looks things up *before* this dictionary joins the set)
    let mut v = vec![Row::new("zz", 1, 1, if layer == 2 { -32768 } else { 100 }, P_NOUN)];
    for e in entries.iter().filter(|e| e.layer == layer) {
        v.push(Row::new(&e.key, if e.indexed { 1 } else { -1 }, 1, 1000 + v.len() as i32, P_NOUN));
    }
    v
}

pub fn build_layers(dir: &PathBuf, matrix: &str, layers: &[Vec<Row>]) -> Result<Dict, String> {
    let sys = compile_system(matrix, &rows_to_csv(&layers[0]))?;
    let plugins = bare_plugins(&pos_of(P_NOUN));
    let mut users = Vec::new();
    if layers.len() > 1 {
        let base = load(dir, &plugins, sys.clone(), vec![])?;
        for l in &layers[1..] {
            users.push(compile_user(&base, &rows_to_csv(l))?);
        }
    }
    Ok(Arc::new(load(dir, &plugins, sys, users)?))
}

/// compare lookups at every byte offset of every text with the naive scan
pub fn compare_lookups(dict: &Dict, layers: &[Vec<Row>], texts: &[String], ctx: &str, o: &mut Outcome) {
    let lex = dict.lexicon();
    for t in texts {
        let bytes = t.as_bytes();
        for off in 0..=bytes.len() {
            o.evaluations += 1;
            let mut obs: Obs = BTreeMap::new();
            for e in lex.lookup(bytes, off) {
                *obs.entry((e.end, e.word_id.as_raw())).or_insert(0) += 1;
            }
            let mut exp: Obs = BTreeMap::new();
            for (d, rows) in layers.iter().enumerate() {
                for (i, r) in rows.iter().enumerate() {
                    if r.left < 0 {
                        continue;
                    }
                    let k = r.surface.as_bytes();
                    if bytes.len() >= off + k.len() && &bytes[off..off + k.len()] == k {
                        *exp.entry((off + k.len(), ((d as u32) << 28) | i as u32)).or_insert(0) += 1;
                    }
                }
            }
            if obs != exp {
                o.fail(Failure::new(
                    "lookup-differs",
                    format!("{} text {:?} offset {}: lookup returned {:?} (end, word id -> times), naive scan {:?}", ctx, t, off, obs, exp),
                ));
                return;
            }
            if exp.len() > 1 {
                o.nontrivial = true;
            }
        }
    }
}

/// exact-surface lookup through MorphemeList::lookup
pub fn compare_exact(dict: &Dict, layers: &[Vec<Row>], queries: &[String], ctx: &str, o: &mut Outcome) {
    for q in queries {
        if q.is_empty() {
            continue;
        }
        o.evaluations += 1;
        let mut list = MorphemeList::empty(dict.clone());
        let n = match list.lookup(q, InfoSubset::all()) {
            Ok(n) => n,
            Err(e) => {
                o.fail(Failure::new("exact-lookup-error", format!("{} query {:?}: {}", ctx, q, e)));
                continue;
            }
        };
        let mut obs: Vec<u32> = list.iter().map(|m| m.word_id().as_raw()).collect();
        obs.sort();
        let mut exp: Vec<u32> = Vec::new();
        for (d, rows) in layers.iter().enumerate() {
            for (i, r) in rows.iter().enumerate() {
                if r.left >= 0 && r.surface == *q {
                    exp.push(((d as u32) << 28) | i as u32);
                }
            }
        }
        exp.sort();
        if obs != exp || n != exp.len() {
            o.fail(Failure::new("exact-lookup-differs", format!("{} query {:?}: exact lookup returned {} entries {:?}, rows with that key: {:?}", ctx, q, n, obs, exp)));
        }
        for m in list.iter() {
            if &*m.surface() != q.as_str() || m.begin() != 0 || m.end() != q.len() {
                o.fail(Failure::new("exact-lookup-morpheme", format!("{} query {:?}: morpheme surface {:?} range {}..{}", ctx, q, &*m.surface(), m.begin(), m.end())));
            }
        }
    }
}

impl Space for LexSpace {
    type State = Vec<u8>;
    fn name(&self) -> String {
        "lexicons/entry-sequences".into()
    }
    fn init(&self) -> Vec<Vec<u8>> {
        vec![vec![]]
    }
    fn next(&self, s: &Vec<u8>, out: &mut Vec<Vec<u8>>) {
        if s.len() >= self.max_entries {
            return;
        }
        for i in 0..self.menu.len() {
            let mut n = s.clone();
            n.push(i as u8);
            out.push(n);
        }
    }
    fn check(&self, s: &Vec<u8>) -> Outcome {
        let mut o = Outcome::new();
        let entries: Vec<Entry> = s.iter().map(|&i| self.menu[i as usize].clone()).collect();
        let max_layer = entries.iter().map(|e| e.layer).max().unwrap_or(0);
        let layers: Vec<Vec<Row>> = (0..=max_layer).map(|l| rows_of(&entries, l)).collect();
        let ctx = format!("lexicon {:?}", entries.iter().map(|e| format!("{}{}@{}", e.key, if e.indexed { "" } else { "(not indexed)" }, e.layer)).collect::<Vec<_>>());
        let dict = match catch(|| build_layers(&self.dir, &self.matrix, &layers)) {
            Err(p) => {
                o.fail(Failure::panic(&format!("building {}", ctx), &p));
                return o;
            }
            Ok(Err(e)) => {
                o.fail(Failure::new("build-error", format!("{}: {}", ctx, e)));
                return o;
            }
            Ok(Ok(d)) => d,
        };
        match catch(|| {
            let mut o2 = Outcome::new();
            compare_lookups(&dict, &layers, &self.texts, &ctx, &mut o2);
            let keys: Vec<String> = self.texts.clone();
            compare_exact(&dict, &layers, &keys, &ctx, &mut o2);
            o2
        }) {
            Ok(o2) => {
                o.evaluations += o2.evaluations;
                o.nontrivial = o2.nontrivial;
                o.failures = o2.failures;
            }
            Err(p) => o.fail(Failure::panic(&format!("lookup in {}", ctx), &p)),
        }
        o.observe(&entries);
        o
    }
    fn describe(&self, s: &Vec<u8>) -> Value {
        json!({"entries": s, "lexicon": s.iter().map(|&i| { let e = &self.menu[i as usize]; json!({"key": e.key, "indexed": e.indexed, "layer": e.layer}) }).collect::<Vec<_>>()})
    }
    fn parse(&self, v: &Value) -> Option<Vec<u8>> {
        Some(v["entries"].as_array()?.iter().filter_map(|x| x.as_u64().map(|n| n as u8)).collect())
    }
}

fn strings_over(symbols: &[&str], max_len: usize) -> Vec<String> {
    let mut all = vec![String::new()];
    let mut cur = vec![String::new()];
    for _ in 0..max_len {
        let mut nxt = Vec::new();
        for c in &cur {
            for s in symbols {
                nxt.push(format!("{}{}", c, s));
            }
        }
        all.extend(nxt.iter().cloned());
        cur = nxt;
    }
    all
}

fn structured_cases(dir: PathBuf, matrix: String, tier: Tier) -> CaseSpace<String> {
    let cases: Vec<String> = vec!["homographs-127".into(), "homographs-128".into(), "big-table".into(), "layers-15".into(), "layers-16".into(), "long-keys".into(), "escaped-keys".into(), "layers-from-files".into(), "text-beyond-64k".into()];
    CaseSpace {
        label: "lexicons/structured".into(),
        cases,
        check_fn: Box::new(move |c: &String| {
            let mut o = Outcome::new();
            o.nontrivial = true;
            let r = catch(|| {
                let mut o2 = Outcome::new();
                match c.as_str() {
                    "homographs-127" | "homographs-128" => {
                        let n = if c == "homographs-127" { 127 } else { 128 };
                        let mut rows = vec![Row::new("zz", 1, 1, 100, P_NOUN)];
                        for i in 0..n {
                            rows.push(Row::new("あa", 1, 1, i, P_NOUN).reading(&format!("r{}", i)));
                        }
                        rows.push(Row::new("あ", 1, 1, 5, P_NOUN));
                        let layers = vec![rows];
                        match build_layers(&dir, &matrix, &layers) {
                            Ok(d) => {
                                if n > 127 {
                                    // accepted: then it must also work
                                    o2.count("accepted_128_homographs", 1);
                                }
                                let texts = vec!["あa".to_string(), "あaあ".to_string(), "xあa".to_string()];
                                compare_lookups(&d, &layers, &texts, c, &mut o2);
                                compare_exact(&d, &layers, &texts, c, &mut o2);
                            }
                            Err(e) => {
                                if n <= 127 {
                                    o2.fail(Failure::new("build-error", format!("{}: {}", c, e)));
                                }
                            }
                        }
                    }
                    "big-table" => {
                        // word-id table offsets cross 255 and 65535; every key and proper prefix is looked up
                        let n = if tier == Tier::Quick { 14000 } else { 40000 };
                        let mut rows = Vec::new();
                        let syms: Vec<char> = "abあ𠮷é".chars().collect();
                        for i in 0..n {
                            let mut k = String::new();
                            let mut x = i;
                            loop {
                                k.push(syms[x % syms.len()]);
                                x /= syms.len();
                                if x == 0 {
                                    break;
                                }
                            }
                            rows.push(Row::new(&k, 1, 1, (i % 30000) as i32, P_NOUN));
                            if i % 7 == 0 {
                                rows.push(Row::new(&k, 1, 1, 7, P_PROPN));
                            }
                        }
                        let layers = vec![rows];
                        match build_layers(&dir, &matrix, &layers) {
                            Err(e) => o2.fail(Failure::new("build-error", format!("{}: {}", c, e))),
                            Ok(d) => {
                                let mut texts: Vec<String> = layers[0].iter().step_by(if tier == Tier::Quick { 9 } else { 1 }).map(|r| format!("{}a𠮷", r.surface)).collect();
                                texts.push("𠮷𠮷𠮷𠮷𠮷𠮷𠮷𠮷".into());
                                compare_lookups(&d, &layers, &texts, c, &mut o2);
                                let qs: Vec<String> = layers[0].iter().step_by(50).map(|r| r.surface.clone()).collect();
                                compare_exact(&d, &layers, &qs, c, &mut o2);
                            }
                        }
                    }
                    "layers-15" | "layers-16" => {
                        let n = if c == "layers-15" { 15 } else { 16 };
                        let mut layers = Vec::new();
                        for l in 0..n {
                            layers.push(vec![Row::new("zz", 1, 1, 100, P_NOUN), Row::new("あ", 1, 1, l, P_NOUN), Row::new(&format!("あ{}", "a".repeat(l as usize % 3)), 1, 1, 9, P_NOUN)]);
                        }
                        match build_layers(&dir, &matrix, &layers) {
                            Err(e) => {
                                if n <= 15 {
                                    o2.fail(Failure::new("build-error", format!("{}: {}", c, e)));
                                } else {
                                    o2.count("layer_16_rejected", 1);
                                }
                            }
                            Ok(d) => {
                                if n > 15 {
                                    o2.fail(Failure::new("too-many-layers-accepted", format!("{}: 15 user dictionaries were accepted", c)));
                                }
                                let texts = vec!["あ".to_string(), "あaa".to_string(), "zzあa".to_string()];
                                compare_lookups(&d, &layers, &texts, c, &mut o2);
                                compare_exact(&d, &layers, &texts, c, &mut o2);
                            }
                        }
                    }
                    "long-keys" => {
                        let mut rows = vec![Row::new("zz", 1, 1, 100, P_NOUN)];
                        for len in [1usize, 2, 63, 64, 85, 86, 127, 128, 200, 255] {
                            rows.push(Row::new(&"あ".repeat(len), 1, 1, len as i32, P_NOUN));
                        }
                        let layers = vec![rows];
                        match build_layers(&dir, &matrix, &layers) {
                            Err(e) => o2.fail(Failure::new("build-error", format!("{}: {}", c, e))),
                            Ok(d) => {
                                let texts = vec!["あ".repeat(256), "あ".repeat(100), format!("a{}", "あ".repeat(130))];
                                compare_lookups(&d, &layers, &texts, c, &mut o2);
                            }
                        }
                    }
                    "layers-from-files" => {
                        // the route of the command-line tool: a configuration naming the files (relative and
                        // absolute paths mixed, one file listed twice); dictionary numbers follow the list
                        let a = vec![Row::new("あ", 1, 1, 100, P_NOUN), Row::new("あa", 1, 1, 101, P_NOUN)];
                        let b = vec![Row::new("あ", 1, 1, 200, P_NOUN), Row::new("aあ", 1, 1, 201, P_NOUN), Row::new("あaa", 1, 1, 202, P_NOUN)];
                        let sys_rows = vec![Row::new("あ", 1, 1, 1, P_NOUN), Row::new("a", 1, 1, 2, P_NOUN), Row::new("あa", 1, 1, 3, P_NOUN)];
                        let built = (|| -> Result<Dict, String> {
                            let sys = compile_system(&matrix, &rows_to_csv(&sys_rows))?;
                            let plugins = bare_plugins(&pos_of(P_NOUN));
                            let base = load(&dir, &plugins, sys.clone(), vec![])?;
                            let ua = compile_user(&base, &rows_to_csv(&a))?;
                            let ub = compile_user(&base, &rows_to_csv(&b))?;
                            // user dictionaries 1..4 = a, b, a, b
                            Ok(Arc::new(load_from_files(&dir, &plugins, &sys, &[ua.clone(), ub.clone(), ua, ub], "c04files")?))
                        })();
                        match built {
                            Err(e) => o2.fail(Failure::new("build-error", format!("{}: {}", c, e))),
                            Ok(d) => {
                                let layers = vec![sys_rows.clone(), a.clone(), b.clone(), a.clone(), b.clone()];
                                let texts = vec!["あaaあ".to_string(), "aあa".to_string()];
                                compare_lookups(&d, &layers, &texts, c, &mut o2);
                                compare_exact(&d, &layers, &vec!["あ".to_string(), "あa".to_string(), "あaa".to_string()], c, &mut o2);
                            }
                        }
                    }
                    "text-beyond-64k" => {
                        // lookup is not limited to analysable texts: offsets and ends beyond 65535
                        let rows = vec![Row::new("東", 1, 1, 1, P_NOUN), Row::new("東京", 1, 1, 2, P_NOUN), Row::new("東京都", 1, 1, 3, P_NOUN), Row::new("あ", 1, 1, 4, P_NOUN), Row::new("あ東", 1, 1, 5, P_NOUN), Row::new("都に", 1, 1, 6, P_NOUN)];
                        let layers = vec![rows];
                        match build_layers(&dir, &matrix, &layers) {
                            Err(e) => o2.fail(Failure::new("build-error", format!("{}: {}", c, e))),
                            Ok(d) => {
                                let text = format!("{}東京都に", "あ".repeat(21850));
                                let lex = d.lexicon();
                                let bytes = text.as_bytes();
                                for off in (0..40).chain(65500..=bytes.len()) {
                                    o2.evaluations += 1;
                                    let mut obs: Vec<(usize, u32)> = lex.lookup(bytes, off).map(|e| (e.end, e.word_id.as_raw())).collect();
                                    obs.sort();
                                    let mut exp: Vec<(usize, u32)> = Vec::new();
                                    for (i, r) in layers[0].iter().enumerate() {
                                        if bytes[off..].starts_with(r.surface.as_bytes()) {
                                            exp.push((off + r.surface.len(), i as u32));
                                        }
                                    }
                                    exp.sort();
                                    if obs != exp {
                                        o2.fail(Failure::new("lookup-differs", format!("{} (text of {} bytes) offset {}: lookup returned {:?}, naive scan {:?}", c, bytes.len(), off, obs, exp)));
                                        break;
                                    }
                                }
                            }
                        }
                    }
                    "escaped-keys" => {
                        // keys written in the CSV with \uXXXX / \u{X...} escapes (several per key): the
                        // entries are found under the characters the escapes stand for
                        let keys = ["あ", "あ𠮷", "𠮷𠮷a", "京都", "京", "a京", "🍣🍺", "🍣🍺🍶"];
                        let esc = |k: &str, style: usize| -> String {
                            let mut out = String::new();
                            for (i, c) in k.chars().enumerate() {
                                if c.is_ascii() {
                                    out.push(c);
                                } else if (c as u32) < 0x10000 && (i + style) % 2 == 0 {
                                    out.push_str(&format!("\\u{:04x}", c as u32));
                                } else {
                                    out.push_str(&format!("\\u{{{:x}}}", c as u32));
                                }
                            }
                            out
                        };
                        let mut src: Vec<Vec<Row>> = vec![Vec::new(), Vec::new()];
                        let mut reference: Vec<Vec<Row>> = vec![Vec::new(), Vec::new()];
                        for (i, k) in keys.iter().enumerate() {
                            let layer = i % 2;
                            reference[layer].push(Row::new(k, 1, 1, 100 + i as i32, P_NOUN));
                            // headword, reading and forms stay literal: only the key is escaped
                            let mut r = Row::new(k, 1, 1, 100 + i as i32, P_NOUN);
                            r.surface = esc(k, i);
                            src[layer].push(r);
                        }
                        match build_layers(&dir, &matrix, &src) {
                            Err(e) => o2.fail(Failure::new("build-error", format!("{}: {}", c, e))),
                            Ok(d) => {
                                let texts = vec!["あ𠮷𠮷a京都".to_string(), "🍣🍺🍶a京".to_string(), "𠮷𠮷aあ".to_string()];
                                compare_lookups(&d, &reference, &texts, c, &mut o2);
                                let qs: Vec<String> = keys.iter().map(|k| k.to_string()).collect();
                                compare_exact(&d, &reference, &qs, c, &mut o2);
                            }
                        }
                    }
                    _ => {}
                }
                o2
            });
            match r {
                Ok(o2) => {
                    o.evaluations = o2.evaluations.max(1);
                    o.failures = o2.failures;
                    o.counters = o2.counters;
                }
                Err(p) => o.fail(Failure::panic(c, &p)),
            }
            o.observe(c);
            o
        }),
        describe_fn: Box::new(|c: &String| json!(c)),
    }
}

pub fn main(tier: Tier, replay: Option<String>) -> i32 {
    let mut rep = Report::new("C04", "model_checking", tier);
    rep.rule = "states = sequences of lexicon entries (key over {a,あ,𠮷} of length <= 2, indexed or not, in the system dictionary or one of two user dictionaries) up to max_entries; each state is compiled by the real builder and every byte offset of every text of length <= 3 is looked up through LexiconSet::lookup (multiset of end/word/dictionary) and every text through exact-surface lookup; non-trivial = some offset matches more than one entry; plus structured lexicons (127/128 homographs, 14k+ keys, 15/16 layers, keys up to 255 characters)".into();
    rep.assumptions = vec!["every dictionary layer carries one fixed indexed entry 'zz' (an empty index is C06's subject)".into()];
    let spec = spec_min("W-c04");
    let dir = write_world_files(&spec);
    let matrix = Matrix::distinct(3, 3).to_text();
    let keys = strings_over(&["a", "あ", "𠮷"], 2);
    let mut menu = Vec::new();
    for k in keys.iter().filter(|k| !k.is_empty()) {
        menu.push(Entry { key: k.clone(), indexed: true, layer: 0 });
    }
    for k in keys.iter().filter(|k| !k.is_empty()) {
        menu.push(Entry { key: k.clone(), indexed: false, layer: 0 });
    }
    for k in ["a", "あ", "aあ", "あ𠮷", "𠮷"] {
        menu.push(Entry { key: k.to_string(), indexed: true, layer: 1 });
        menu.push(Entry { key: k.to_string(), indexed: true, layer: 2 });
    }
    menu.push(Entry { key: "あ".into(), indexed: false, layer: 1 });
    let texts = strings_over(&["a", "あ", "𠮷"], 3);
    let max_entries = tier.pick(3, 4);
    let b = json!({"menu": menu.len(), "max_entries": max_entries, "texts": texts.len()});
    let mut jobs: Vec<Box<dyn AnyJob>> = Vec::new();
    jobs.push(job(structured_cases(dir.clone(), matrix.clone(), tier), Strategy::Bfs, Some(tier.pick(60, 900)), json!({"cases": 6})));
    jobs.push(job(LexSpace { dir, menu, max_entries, texts, matrix }, Strategy::Dfs, Some(tier.pick(50, 3000)), b));
    drive(rep, jobs, replay)
}
