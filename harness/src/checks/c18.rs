//! C18 – one loaded dictionary can be shared by concurrent tokenizers.
//!
//! E2: CHESS-style stateless exploration of thread interleavings.  Real OS threads, each with its
//! own StatefulTokenizer over one shared Arc<JapaneseDictionary>, are serialised by a cooperative
//! scheduler that owns every hand-off: threads park at the `sched_point` hooks compiled into
//! sudachi (feature `verif`), the controller replays a choice prefix and then runs the canonical
//! continuation; every point whose cost stays within the preemption bound is branched on.
//! Iterative preemption bounding 0, 1, 2.

use crate::common::evidence::{Report, Tier};
use crate::common::findings::Failure;
use crate::common::panics::catch;
use crate::common::refmodel::*;
use crate::common::worlds::*;
use serde_json::{json, Value};
use std::cell::RefCell;
use std::collections::hash_map::DefaultHasher;
use std::collections::HashSet;
use std::hash::{Hash, Hasher};
use std::sync::atomic::{AtomicU64, Ordering};
use std::sync::{Arc, Mutex};
use std::time::{Duration, Instant};
use sudachi::analysis::stateful_tokenizer::StatefulTokenizer;
use sudachi::analysis::stateless_tokenizer::DictionaryAccess;
use sudachi::analysis::Mode;
use sudachi::dic::word_id::WordId;
use sudachi::prelude::MorphemeList;
use sudachi::sentence_splitter::{SentenceSplitter, SplitSentences};

// ---- scheduler -------------------------------------------------------------------------------

struct Inner {
    finished: Vec<bool>,
    /// label of the point the last running thread parked at
    last_label: &'static str,
}

/// Hand-offs are spin-waits on one atomic (a condition variable costs ~60 us per hand-off, which
/// dominated the exploration); waiting threads yield to the OS while they spin.
pub struct Sched {
    m: Mutex<Inner>,
    /// thread allowed to run; NOBODY = the controller decides; RELEASED = everybody runs free
    turn: std::sync::atomic::AtomicIsize,
}

const NOBODY: isize = -1;
const RELEASED: isize = -2;

thread_local! {
    static CTX: RefCell<Option<(Arc<Sched>, usize)>> = RefCell::new(None);
}

fn hook(label: &'static str) {
    let ctx = CTX.with(|c| c.borrow().clone());
    if let Some((s, tid)) = ctx {
        s.point(tid, label);
    }
}

fn spin(n: &mut u32) {
    *n += 1;
    if *n < 200 {
        std::hint::spin_loop();
    } else {
        std::thread::yield_now();
    }
}

impl Sched {
    fn new(n: usize) -> Arc<Sched> {
        Arc::new(Sched { m: Mutex::new(Inner { finished: vec![false; n], last_label: "spawn" }), turn: std::sync::atomic::AtomicIsize::new(NOBODY) })
    }
    fn wait_turn(&self, tid: usize) {
        let mut n = 0;
        loop {
            let t = self.turn.load(Ordering::Acquire);
            if t == tid as isize || t == RELEASED {
                return;
            }
            spin(&mut n);
        }
    }
    fn point(&self, tid: usize, label: &'static str) {
        if self.turn.load(Ordering::Acquire) == RELEASED {
            return;
        }
        self.m.lock().unwrap().last_label = label;
        self.turn.store(NOBODY, Ordering::Release);
        self.wait_turn(tid);
    }
    fn finish(&self, tid: usize) {
        {
            let mut g = self.m.lock().unwrap();
            g.finished[tid] = true;
            g.last_label = "finished";
        }
        let _ = self.turn.compare_exchange(tid as isize, NOBODY, Ordering::AcqRel, Ordering::Acquire);
    }
}

#[derive(Clone, Debug)]
pub struct PointInfo {
    pub enabled: Vec<usize>,
    pub running_still_enabled: bool,
    pub chosen: usize, // index into enabled
    pub label: &'static str,
}

pub struct Execution {
    /// fingerprint of the execution's dictionary after all threads finished
    pub fingerprint: u64,
    pub points: Vec<PointInfo>,
    pub results: Vec<Result<Vec<String>, String>>,
    pub deadlock: Option<String>,
    pub trace_hash: u64,
}

// ---- driver --------------------------------------------------------------------------------------

#[derive(Clone)]
pub enum Job {
    Tokenize { mode: Mode, texts: Vec<String> },
    /// the same with a restricted field request (bits of InfoSubset)
    TokenizeSubset { mode: Mode, subset: u32, texts: Vec<String> },
    Sentences { text: String },
}

pub struct Driver {
    pub label: String,
    pub world: Arc<World>,
    pub jobs: Vec<Job>,
}

fn run_job(dict: &Dict, job: &Job) -> Vec<String> {
    match job {
        Job::Tokenize { mode, texts } | Job::TokenizeSubset { mode, texts, .. } => {
            let mut tok = StatefulTokenizer::new(dict.clone(), *mode);
            if let Job::TokenizeSubset { subset, .. } = job {
                tok.set_subset(sudachi::dic::subset::InfoSubset::from_bits_truncate(*subset));
            }
            let mut list = MorphemeList::empty(dict.clone());
            let mut out = Vec::new();
            for t in texts {
                tok.reset().push_str(t);
                match tok.do_tokenize() {
                    Ok(()) => {
                        list.collect_results(&mut tok).expect("collect");
                        for m in toks_of(&list) {
                            out.push(format!("{:?}", m));
                        }
                        out.push("--".into());
                    }
                    Err(e) => out.push(format!("error {}", e)),
                }
            }
            out
        }
        Job::Sentences { text } => {
            let sp = SentenceSplitter::with_limit(8).with_checker(dict.lexicon());
            sudachi::verif::sched_point("sentences:start");
            let mut out = Vec::new();
            for (r, s) in sp.split(text) {
                sudachi::verif::sched_point("sentences:next");
                out.push(format!("{:?} {}", r, s));
            }
            out
        }
    }
}

fn fingerprint(dict: &Dict, words: &[u32]) -> u64 {
    let mut h = DefaultHasher::new();
    let g = dict.grammar();
    let cm = g.conn_matrix();
    for l in 0..cm.num_left() {
        for r in 0..cm.num_right() {
            cm.cost(l as u16, r as u16).hash(&mut h);
        }
    }
    g.pos_list.hash(&mut h);
    let lex = dict.lexicon();
    for &w in words {
        let wid = WordId::from_raw(w);
        lex.get_word_param(wid).hash(&mut h);
        if let Ok(wi) = lex.get_word_info(wid) {
            wi.surface().hash(&mut h);
            wi.pos_id().hash(&mut h);
            wi.normalized_form().hash(&mut h);
            wi.reading_form().hash(&mut h);
            wi.dictionary_form().hash(&mut h);
            wi.a_unit_split().hash(&mut h);
            wi.b_unit_split().hash(&mut h);
            wi.word_structure().hash(&mut h);
            wi.synonym_group_ids().hash(&mut h);
        }
    }
    h.finish()
}

impl Driver {
    /// A newly loaded dictionary (same bytes, same configuration).  Every execution gets its own:
    /// executions are independent of each other, a schedule always starts from the state "just
    /// loaded", and whatever a dictionary builds lazily is built inside the explored execution.
    pub fn fresh_dict(&self) -> Dict {
        let w = &self.world;
        Arc::new(load(&w.dir, &w.spec.plugins, w.system_bytes.clone(), w.user_bytes.clone()).expect("reload of the concurrency world"))
    }

    pub fn words(&self) -> Vec<u32> {
        self.world.all_rows().iter().map(|(d, i, _)| WordId::new(*d as u8, *i as u32).as_raw()).collect()
    }

    /// what each thread obtains when it is the only user of a newly loaded dictionary
    pub fn sequential(&self) -> (Vec<Vec<String>>, u64) {
        let d = self.fresh_dict();
        let fp0 = fingerprint(&d, &self.words());
        // every text of a thread's stream on a dictionary (and tokenizer) of its own: the result for an
        // input does not depend on what the dictionary was asked before
        let per_job = |j: &Job| -> Vec<String> {
            match j {
                Job::Tokenize { mode, texts } => texts.iter().flat_map(|t| run_job(&self.fresh_dict(), &Job::Tokenize { mode: *mode, texts: vec![t.clone()] })).collect(),
                Job::TokenizeSubset { mode, subset, texts } => texts.iter().flat_map(|t| run_job(&self.fresh_dict(), &Job::TokenizeSubset { mode: *mode, subset: *subset, texts: vec![t.clone()] })).collect(),
                other => run_job(&self.fresh_dict(), other),
            }
        };
        (self.jobs.iter().map(per_job).collect(), fp0)
    }

    /// run one schedule: replay `prefix`, then always continue the running thread (choice 0)
    pub fn run(&self, prefix: &[usize]) -> Execution {
        let shared = self.fresh_dict();
        let n_threads = self.jobs.len();
        let n = n_threads;
        let sched = Sched::new(n);
        let results: Arc<Mutex<Vec<Option<Result<Vec<String>, String>>>>> = Arc::new(Mutex::new(vec![None; n]));
        let mut handles = Vec::new();
        for tid in 0..n {
            let s = sched.clone();
            let dict = shared.clone();
            let job = self.jobs[tid].clone();
            let res = results.clone();
            handles.push(
                std::thread::Builder::new()
                    .stack_size(16 << 20)
                    .spawn(move || {
                        CTX.with(|c| *c.borrow_mut() = Some((s.clone(), tid)));
                        s.wait_turn(tid);
                        let r = catch(|| run_job(&dict, &job)).map_err(|p| format!("panic at {}: {}", p.location, p.message));
                        res.lock().unwrap()[tid] = Some(r);
                        CTX.with(|c| *c.borrow_mut() = None);
                        s.finish(tid);
                    })
                    .expect("spawn"),
            );
        }
        let mut points: Vec<PointInfo> = Vec::new();
        let mut running: Option<usize> = None;
        let mut deadlock: Option<String> = None;
        let mut th = DefaultHasher::new();
        loop {
            // wait until nobody runs
            let deadline = Instant::now() + Duration::from_secs(120);
            let mut n = 0;
            while sched.turn.load(Ordering::Acquire) != NOBODY {
                spin(&mut n);
                if n % 4096 == 0 && Instant::now() > deadline {
                    let g = sched.m.lock().unwrap();
                    deadlock = Some(format!("thread {} did not reach a scheduling point within 120 s after {:?} (blocked outside the scheduler's control)", sched.turn.load(Ordering::Acquire), g.last_label));
                    break;
                }
            }
            if deadlock.is_some() {
                sched.turn.store(RELEASED, Ordering::Release);
                break;
            }
            let g = sched.m.lock().unwrap();
            let label = g.last_label;
            let enabled_set: Vec<usize> = (0..n_threads).filter(|&t| !g.finished[t]).collect();
            if enabled_set.is_empty() {
                break;
            }
            let still = running.map(|r| !g.finished[r]).unwrap_or(false);
            drop(g);
            let mut enabled: Vec<usize> = Vec::new();
            if still {
                enabled.push(running.unwrap());
            }
            for &t in &enabled_set {
                if !enabled.contains(&t) {
                    enabled.push(t);
                }
            }
            let i = points.len();
            let choice = if i < prefix.len() { prefix[i] } else { 0 };
            if choice >= enabled.len() {
                // divergence while replaying a prefix: hard machinery error
                sched.turn.store(RELEASED, Ordering::Release);
                for h in handles {
                    let _ = h.join();
                }
                eprintln!("machinery failure: schedule replay diverged at point {}: choice {} of {} enabled (label {})", i, choice, enabled.len(), label);
                std::process::exit(2);
            }
            let chosen = enabled[choice];
            (chosen, label).hash(&mut th);
            points.push(PointInfo { enabled: enabled.clone(), running_still_enabled: still, chosen: choice, label });
            running = Some(chosen);
            sched.turn.store(chosen as isize, Ordering::Release);
        }
        for h in handles {
            let _ = h.join();
        }
        let results: Vec<Result<Vec<String>, String>> = results.lock().unwrap().iter().map(|r| r.clone().unwrap_or_else(|| Err("thread did not finish".into()))).collect();
        let fingerprint = fingerprint(&shared, &self.words());
        Execution { fingerprint, points, results, deadlock, trace_hash: th.finish() }
    }
}

pub fn preemptions_before(points: &[PointInfo], i: usize) -> usize {
    points[..i].iter().filter(|p| p.running_still_enabled && p.chosen != 0).count()
}

pub struct ExploreStats {
    pub schedules: u64,
    pub points_total: u64,
    pub max_points: u64,
    pub distinct_traces: HashSet<u64>,
    pub distinct_observations: HashSet<u64>,
    pub preempting_schedules: u64,
    pub violation: Option<(Vec<usize>, Vec<Failure>)>,
    pub capped: bool,
    pub samples: Vec<Value>,
}

/// Explore all schedules of `driver` with at most `bound` preemptions.  Executions are independent
/// (each has its own scheduler, threads and newly loaded dictionary; the process-wide lazily built
/// tables were initialised by the sequential runs), so several are in flight at once.
pub fn explore(driver: &Driver, bound: usize, expected: &[Vec<String>], fp0: u64, cap: Duration) -> ExploreStats {
    let t0 = Instant::now();
    struct Shared {
        st: ExploreStats,
        stack: Vec<Vec<usize>>,
        in_flight: usize,
        stop: bool,
    }
    let shared = Mutex::new(Shared {
        st: ExploreStats { schedules: 0, points_total: 0, max_points: 0, distinct_traces: HashSet::new(), distinct_observations: HashSet::new(), preempting_schedules: 0, violation: None, capped: false, samples: Vec::new() },
        stack: vec![vec![]],
        in_flight: 0,
        stop: false,
    });
    let workers = std::env::var("VERIF_C18_WORKERS").ok().and_then(|v| v.parse().ok()).unwrap_or(4usize).max(1);
    std::thread::scope(|scope| {
        for _ in 0..workers {
            scope.spawn(|| loop {
                let prefix = {
                    let mut g = shared.lock().unwrap();
                    if g.stop {
                        return;
                    }
                    if t0.elapsed() > cap && (!g.stack.is_empty() || g.in_flight > 0) {
                        g.st.capped = true;
                        g.stop = true;
                        return;
                    }
                    match g.stack.pop() {
                        Some(p) => {
                            g.in_flight += 1;
                            p
                        }
                        None => {
                            if g.in_flight == 0 {
                                return;
                            }
                            drop(g);
                            std::thread::sleep(Duration::from_micros(200));
                            continue;
                        }
                    }
                };
                let x = driver.run(&prefix);
                let choices: Vec<usize> = x.points.iter().map(|p| p.chosen).collect();
                let first_ones = shared.lock().unwrap().st.schedules < 40;
                // replay-twice determinism check on the first schedules
                if first_ones {
                    let y = driver.run(&choices);
                    if y.trace_hash != x.trace_hash || y.results != x.results || y.fingerprint != x.fingerprint {
                        // the same schedule on two newly loaded dictionaries behaves differently:
                        // nothing the scheduler controls explains that
                        eprintln!("uncontrolled nondeterminism: replaying schedule {:?} gave a different trace", compact(&choices));
                        std::process::exit(2);
                    }
                }
                // oracle
                let mut fails = Vec::new();
                if let Some(d) = &x.deadlock {
                    fails.push(Failure::new("deadlock", format!("[{}] schedule {:?}: {}", driver.label, compact(&choices), d)));
                }
                let mut oh = DefaultHasher::new();
                for (tid, r) in x.results.iter().enumerate() {
                    match r {
                        Err(e) => fails.push(Failure::new("thread-failed", format!("[{}] schedule {:?}: thread {} failed: {}", driver.label, compact(&choices), tid, e))),
                        Ok(v) => {
                            v.hash(&mut oh);
                            if v != &expected[tid] {
                                let first = v.iter().zip(expected[tid].iter()).position(|(a, b)| a != b).unwrap_or(v.len().min(expected[tid].len()));
                                fails.push(Failure::new(
                                    "result-differs-from-sequential",
                                    format!("[{}] schedule {:?}: thread {} obtained a result different from its single-threaded run; first difference at item {}: {:?} vs {:?}", driver.label, compact(&choices), tid, first, v.get(first), expected[tid].get(first)),
                                ));
                            }
                        }
                    }
                }
                if x.fingerprint != fp0 {
                    fails.push(Failure::new("dictionary-modified", format!("[{}] schedule {:?}: the shared dictionary's fingerprint changed", driver.label, compact(&choices))));
                }
                let mut g = shared.lock().unwrap();
                g.in_flight -= 1;
                g.st.schedules += 1;
                g.st.points_total += x.points.len() as u64;
                g.st.max_points = g.st.max_points.max(x.points.len() as u64);
                g.st.distinct_traces.insert(x.trace_hash);
                if preemptions_before(&x.points, x.points.len()) > 0 {
                    g.st.preempting_schedules += 1;
                }
                g.st.distinct_observations.insert(oh.finish());
                if g.st.samples.len() < 3 && g.st.schedules % 97 == 1 {
                    let v = json!({"driver": driver.label, "bound": bound, "choices": compact(&choices), "points": x.points.len(), "labels": x.points.iter().take(12).map(|p| p.label).collect::<Vec<_>>()});
                    g.st.samples.push(v);
                }
                if !fails.is_empty() {
                    // keep the violation with the fewest preemptions, then the shortest prefix
                    let better = match &g.st.violation {
                        None => true,
                        Some((c, _)) => (choices.iter().filter(|&&k| k != 0).count(), choices.len()) < (c.iter().filter(|&&k| k != 0).count(), c.len()),
                    };
                    if better {
                        g.st.violation = Some((choices, fails));
                    }
                    g.stop = true;
                    return;
                }
                // branch
                for i in prefix.len()..x.points.len() {
                    let p = &x.points[i];
                    let before = preemptions_before(&x.points, i);
                    for alt in 1..p.enabled.len() {
                        let cost = before + if p.running_still_enabled { 1 } else { 0 };
                        if cost > bound {
                            continue;
                        }
                        let mut np: Vec<usize> = choices[..i].to_vec();
                        np.push(alt);
                        g.stack.push(np);
                    }
                }
            });
        }
    });
    shared.into_inner().unwrap().st
}

/// run-length rendering of a choice list (mostly zeros)
pub fn compact(c: &[usize]) -> String {
    let mut s = String::new();
    let mut zeros = 0;
    for &x in c {
        if x == 0 {
            zeros += 1;
        } else {
            if zeros > 0 {
                s.push_str(&format!("0x{} ", zeros));
                zeros = 0;
            }
            s.push_str(&format!("{} ", x));
        }
    }
    if zeros > 0 {
        s.push_str(&format!("0x{}", zeros));
    }
    s.trim().to_string()
}

fn concurrency_world() -> Arc<World> {
    let mut spec = spec_user("W-conc", 2, true);
    spec.system.push(Row::new("な。な", 8, 8, 2914, P_NOUN));
    // every OOV provider type: regex first (as in the repository's regex test configuration)
    spec.plugins["oovProviderPlugin"] = json!([regex_oov("[a-z0-9]+-[a-z0-9]+|[a-z]{2,}", 1, 1, 3000, P_NOUN, 16, false), mecab_oov(false), simple_oov(5, 5, 3857, P_SYM, false)]);
    Arc::new(World::build(spec).expect("W-conc"))
}

/// a world without user dictionaries: loading it analyses nothing, so whatever the dictionary or a
/// plugin builds on first use is built by the explored threads themselves
fn first_use_world() -> Arc<World> {
    let mut spec = spec_full("W-conc-first-use", true);
    spec.plugins["oovProviderPlugin"] = json!([regex_oov("[a-z0-9]+-[a-z0-9]+|[a-z]{2,}", 1, 1, 3000, P_NOUN, 16, false), mecab_oov(false), simple_oov(5, 5, 3857, P_SYM, false)]);
    Arc::new(World::build(spec).expect("W-conc-first-use"))
}

/// a regex provider in its debugging mode with a pattern whose second alternative is not anchored: every analysis
/// in which that alternative matches behind the start of a window returns an error value - each of them, every time
fn regex_debug_world() -> Arc<World> {
    let mut spec = spec_full("W-conc-regex-debug", true);
    let mut rx = regex_oov("[0-9]+|[a-z]+", 1, 1, 3000, P_NOUN, 16, true);
    rx["debug"] = json!(true);
    spec.plugins["oovProviderPlugin"] = json!([rx, mecab_oov(false), simple_oov(5, 5, 3857, P_SYM, false)]);
    Arc::new(World::build(spec).expect("W-conc-regex-debug"))
}

/// a dictionary of 1300 words (more than any small table of "recently used" entries holds) and a
/// text that contains 1200 of them
fn many_words_world() -> (Arc<World>, String, String) {
    static W: std::sync::OnceLock<(Arc<World>, String, String)> = std::sync::OnceLock::new();
    W.get_or_init(|| {
        let mut spec = spec_min("W-conc-many-words");
        let kana: Vec<char> = "かきくけこさしすせそたちつてとなにぬねのはひふへほまみむめもやゆよらりるれろ".chars().collect();
        let mut text = String::new();
        let mut first = String::new();
        for i in 0..1300usize {
            let w: String = [kana[i % 37], kana[(i / 37) % 37], 'ん', kana[(i * 7 + 3) % 37]].iter().collect();
            spec.system.push(Row::new(&w, 1, 1, -20000, P_NOUN).reading(&format!("ヨミ{}", i)).norm(&format!("{}正", w)));
            if i == 0 {
                first = w.clone();
            } else if i <= 1200 {
                text.push_str(&w);
            }
        }
        (Arc::new(World::build(spec).expect("W-conc-many-words")), first, text)
    })
    .clone()
}

fn drivers_for(tier: Tier, world: &Arc<World>, first: &Arc<World>) -> Vec<(Driver, Vec<usize>)> {
    let t = |m: Mode, v: &[&str]| Job::Tokenize { mode: m, texts: v.iter().map(|s| s.to_string()).collect() };
    let ts = |m: Mode, bits: u32, v: &[&str]| Job::TokenizeSubset { mode: m, subset: bits, texts: v.iter().map(|s| s.to_string()).collect() };
    const POS_ONLY: u32 = 1 << 2; // InfoSubset::POS_ID
    const ALL_BUT_TWO_HIGHEST: u32 = 0xff; // everything but WORD_STRUCTURE (bit 8) and SYNONYM_GROUP_ID (bit 9)
    let w = || world.clone();
    match tier {
        Tier::Quick => vec![
            (Driver { label: "2 threads x 2 analyses".into(), world: w(), jobs: vec![t(Mode::A, &["東京都二千円", "カタア"]), t(Mode::C, &["1,000㍿", "東京府xag-2f"])] }, vec![0, 1]),
            (Driver { label: "3 threads x 1 analysis".into(), world: w(), jobs: vec![t(Mode::B, &["三百xyz"]), t(Mode::C, &["すだちア"]), Job::Sentences { text: "あ。な。な。い".into() }] }, vec![0, 1]),
            (Driver { label: "2 threads x 1 short analysis".into(), world: w(), jobs: vec![t(Mode::A, &["二千xyz"]), t(Mode::C, &["1,0だ"])] }, vec![0, 1, 2]),
            (Driver { label: "2 threads, katakana runs of different length".into(), world: w(), jobs: vec![t(Mode::C, &["アイアイウ"]), t(Mode::C, &["京都に行った"])] }, vec![0, 1, 2]),
            (Driver { label: "2 threads, katakana and other scripts at the same token positions".into(), world: w(), jobs: vec![t(Mode::C, &["京都にアイ"]), t(Mode::C, &["京都にたアイウ"])] }, vec![0, 1]),
            (Driver { label: "2 threads, first use of a system-only dictionary".into(), world: first.clone(), jobs: vec![t(Mode::C, &["か゛ｳﾞ三"]), t(Mode::A, &["は゜アー"])] }, vec![0, 1, 2]),
            (Driver { label: "3 threads, bracketed readings and different scripts".into(), world: w(), jobs: vec![t(Mode::C, &["京都（きょうと）に"]), t(Mode::C, &["東(ひがし)a1"]), t(Mode::A, &["カタカナ123abc"])] }, vec![0, 1]),
            (Driver { label: "2 threads, different field requests on user-dictionary words".into(), world: w(), jobs: vec![ts(Mode::C, POS_ONLY, &["東京府すだち"]), t(Mode::A, &["東京府すだち"])] }, vec![0, 1, 2]),
            (Driver { label: "2 threads, field requests that differ in the two highest fields only".into(), world: w(), jobs: vec![ts(Mode::C, ALL_BUT_TWO_HIGHEST, &["東京府京都"]), t(Mode::C, &["東京府京都"])] }, vec![0, 1]),
            (Driver { label: "2 threads, astral and BMP characters with the same low sixteen bits".into(), world: w(), jobs: vec![t(Mode::C, &["\u{20041}\u{20042}x", "\u{1d400}"]), t(Mode::C, &["Aあ", "\u{d400}B"])] }, vec![0, 1]),
            (Driver { label: "2 threads, analyses that end in an error value (regex provider in debugging mode)".into(), world: regex_debug_world(), jobs: vec![t(Mode::C, &["京都abc", "東京"]), t(Mode::C, &["東xyz", "京都7"])] }, vec![0, 1]),
            {
                let (mw, one, many) = many_words_world();
                (Driver { label: "2 threads, a word before and after 1200 other words of a 1300-word dictionary".into(), world: mw, jobs: vec![t(Mode::C, &[&one, &many, &one]), t(Mode::C, &[&one])] }, vec![0])
            },
        ],
        Tier::Thorough => vec![
            (Driver { label: "2 threads x 2 analyses".into(), world: w(), jobs: vec![t(Mode::A, &["東京都に行く二千三百円", "カタカタア(あ)"]), t(Mode::C, &["1,000円㍿東京府", "すだちxag-2f"])] }, vec![0, 1, 2]),
            (Driver { label: "3 threads x 1 analysis".into(), world: w(), jobs: vec![t(Mode::B, &["二千三百xyz"]), t(Mode::C, &["すだちアイ"]), Job::Sentences { text: "あ。な。な。い！と。".into() }] }, vec![0, 1, 2]),
            (Driver { label: "2 threads, same text".into(), world: w(), jobs: vec![t(Mode::C, &["東京都(とうきょうと)に1,234円xy"]), t(Mode::C, &["東京都(とうきょうと)に1,234円xy"])] }, vec![0, 1, 2]),
            (Driver { label: "2 threads, katakana runs of different length".into(), world: w(), jobs: vec![t(Mode::C, &["アイアイウとカタ"]), t(Mode::C, &["京都に行った"])] }, vec![0, 1, 2]),
            (Driver { label: "2 threads, katakana and other scripts at the same token positions".into(), world: w(), jobs: vec![t(Mode::C, &["京都にアイ", "京都にた"]), t(Mode::C, &["京都にたアイウ", "京都にアイウ"])] }, vec![0, 1, 2]),
            (Driver { label: "3 threads, first use of a system-only dictionary".into(), world: first.clone(), jobs: vec![t(Mode::C, &["か゛ｳﾞ三"]), t(Mode::A, &["は゜アー"]), t(Mode::B, &["二千(に)"])] }, vec![0, 1, 2]),
            (Driver { label: "3 threads, bracketed readings and different scripts".into(), world: w(), jobs: vec![t(Mode::C, &["京都（きょうと）に行く"]), t(Mode::C, &["東(ひがし)a1"]), t(Mode::A, &["カタカナ123abc"])] }, vec![0, 1, 2]),
            (Driver { label: "3 threads, different field requests on user-dictionary words".into(), world: w(), jobs: vec![ts(Mode::C, POS_ONLY, &["東京府すだち"]), t(Mode::A, &["東京府すだち"]), ts(Mode::B, 0, &["ぴらる都府"])] }, vec![0, 1, 2]),
            (Driver { label: "3 threads, field requests that differ in the two highest fields only".into(), world: w(), jobs: vec![ts(Mode::C, ALL_BUT_TWO_HIGHEST, &["東京府京都"]), t(Mode::C, &["東京府京都"]), ts(Mode::A, ALL_BUT_TWO_HIGHEST | (1 << 9), &["京都東京府"])] }, vec![0, 1, 2]),
            (Driver { label: "2 threads, astral and BMP characters with the same low sixteen bits".into(), world: w(), jobs: vec![t(Mode::C, &["\u{20041}\u{20042}x", "\u{1d400}"]), t(Mode::C, &["Aあ", "\u{d400}B"])] }, vec![0, 1, 2]),
            (Driver { label: "3 threads, analyses that end in an error value (regex provider in debugging mode)".into(), world: regex_debug_world(), jobs: vec![t(Mode::C, &["京都abc", "東京"]), t(Mode::C, &["東xyz", "京都7"]), t(Mode::A, &["京7a"])] }, vec![0, 1, 2]),
            {
                let (mw, one, many) = many_words_world();
                (Driver { label: "2 threads, a word before and after 1200 other words of a 1300-word dictionary".into(), world: mw, jobs: vec![t(Mode::C, &[&one, &many, &one]), t(Mode::C, &[&one, &one])] }, vec![0, 1])
            },
        ],
    }
}

/// The same thread bodies, free-running (no scheduler) behind a start barrier, every round on a
/// newly loaded dictionary.  A monitor, not an enumeration: a mismatch it reports is a real
/// execution of the real code, silence proves nothing.  Under ThreadSanitizer (thorough tier) it
/// also reports unsynchronised accesses the cooperative scheduler cannot see.
const FREE_RUN_REPEATS: usize = 25;

pub fn free_rounds(tier: Tier, rounds: usize) -> Result<u64, String> {
    let world = concurrency_world();
    let first = first_use_world();
    let mut runs = 0u64;
    let mut all: Vec<Driver> = drivers_for(tier, &world, &first).into_iter().map(|(d, _)| d).collect();
    // monitor only (far too many threads to enumerate): 24 threads on texts of different scripts
    {
        let scripts = ["カタカナ123abc", "東京都に行く", "1,234円xy", "абв αβγ abc", "すだちア㍿", "二千三百万"];
        let jobs: Vec<Job> = (0..24).map(|i| Job::Tokenize { mode: [Mode::A, Mode::B, Mode::C][i % 3], texts: vec![scripts[i % scripts.len()].repeat(8), scripts[(i + 1) % scripts.len()].repeat(8)] }).collect();
        all.push(Driver { label: "24 threads, texts of different scripts (monitor only)".into(), world: world.clone(), jobs });
    }
    for d in all {
        let (expected, fp0) = d.sequential();
        for _ in 0..rounds {
            let dict = d.fresh_dict();
            let gate = Arc::new(std::sync::atomic::AtomicUsize::new(0));
            let n = d.jobs.len();
            let mut hs = Vec::new();
            for j in d.jobs.iter().cloned() {
                let dict = dict.clone();
                let gate = gate.clone();
                let want = expected[hs.len()].clone();
                hs.push(std::thread::spawn(move || {
                    gate.fetch_add(1, Ordering::AcqRel);
                    while gate.load(Ordering::Acquire) < n {
                        std::hint::spin_loop();
                    }
                    // the first analyses race on whatever the dictionary builds on first use; the
                    // repetitions keep the threads inside the library at the same time for longer
                    let mut r = run_job(&dict, &j);
                    for _ in 0..FREE_RUN_REPEATS {
                        if r != want {
                            break;
                        }
                        r = run_job(&dict, &j);
                    }
                    r
                }));
            }
            for (i, h) in hs.into_iter().enumerate() {
                match h.join() {
                    Ok(r) => {
                        if r != expected[i] {
                            let k = r.iter().zip(expected[i].iter()).position(|(a, b)| a != b).unwrap_or(0);
                            return Err(format!("driver {:?}: free-running thread {} obtained a result different from its single-threaded run: item {}: {:?} vs {:?}", d.label, i, k, r.get(k), expected[i].get(k)));
                        }
                    }
                    Err(_) => return Err(format!("driver {:?}: free-running thread {} panicked", d.label, i)),
                }
            }
            if fingerprint(&dict, &d.words()) != fp0 {
                return Err(format!("driver {:?}: the shared dictionary's fingerprint changed in a free-running round", d.label));
            }
            runs += 1;
        }
    }
    Ok(runs)
}

pub fn free_run() -> i32 {
    match free_rounds(Tier::Thorough, 30) {
        Ok(n) => {
            println!("FREE-RUN-OK rounds={}", n);
            0
        }
        Err(e) => {
            println!("FREE-RUN-MISMATCH {}", e);
            1
        }
    }
}

/// build the harness with ThreadSanitizer (nightly, -Zbuild-std) and run `vcheck c18-free` under it
fn tsan_pass() -> Result<String, Result<String, String>> {
    let root = crate::common::evidence::verif_root();
    let target = root.join("target-tsan");
    let out = std::process::Command::new("cargo")
        .args(["+nightly", "build", "-Zbuild-std", "--target", "x86_64-unknown-linux-gnu", "--offline", "--profile", "verif"])
        .current_dir(root.join("harness"))
        .env("RUSTFLAGS", "-Zsanitizer=thread")
        .env("CARGO_TARGET_DIR", &target)
        .env("CARGO_NET_OFFLINE", "true")
        .output()
        .map_err(|e| Err(format!("cannot run cargo +nightly: {}", e)))?;
    if !out.status.success() {
        let err = String::from_utf8_lossy(&out.stderr);
        return Err(Err(format!("ThreadSanitizer build failed: {}", err.lines().rev().take(5).collect::<Vec<_>>().join(" | "))));
    }
    let bin = target.join("x86_64-unknown-linux-gnu").join("verif").join("vcheck");
    let run = std::process::Command::new(&bin)
        .arg("c18-free")
        .env("TSAN_OPTIONS", "halt_on_error=1 exitcode=66 second_deadlock_stack=1")
        .env("VERIF_ROOT", &root)
        .output()
        .map_err(|e| Err(format!("cannot run {}: {}", bin.display(), e)))?;
    let stdout = String::from_utf8_lossy(&run.stdout).to_string();
    let stderr = String::from_utf8_lossy(&run.stderr).to_string();
    if stderr.contains("ThreadSanitizer") || run.status.code() == Some(66) {
        let first: Vec<&str> = stderr.lines().filter(|l| l.contains("ThreadSanitizer") || l.contains(" #0 ") || l.contains(" #1 ") || l.contains(" #2 ")).take(8).collect();
        return Err(Ok(format!("ThreadSanitizer reported: {}", first.join(" | "))));
    }
    if !run.status.success() || !stdout.contains("FREE-RUN-OK") {
        return Err(Ok(format!("free-running threads disagree with the sequential run: {} {}", stdout.trim(), stderr.lines().last().unwrap_or(""))));
    }
    Ok(stdout.trim().to_string())
}

pub fn main(tier: Tier, replay: Option<String>) -> i32 {
    let mut rep = Report::new("C18", "model_checking", tier);
    rep.rule = "every interleaving, at the granularity of the sched_point hooks compiled into sudachi, of the listed drivers (2 threads x 2 analyses, 3 threads x 1 analysis with one thread splitting sentences through the dictionary checker, 2 short analyses, katakana runs of different length, the first analyses on a newly loaded system-only dictionary) with at most `bound` preemptions (iterated 0, 1, 2); every execution runs on its own newly loaded dictionary (every plugin type, two user dictionaries), so executions are independent and a schedule replays identically; per schedule every thread's morphemes (all fields) must equal its single-threaded result on another instance, the dictionary fingerprint (every connection cell, word parameter, word info, POS list) must equal the freshly loaded one, no thread may panic or block outside the scheduler; non-trivial = the schedule contains at least one preemption.  Afterwards the same bodies run free behind a start barrier (monitor, not enumeration; thorough tier: also under ThreadSanitizer)".into();
    rep.assumptions = vec![
        "scheduling points exist only at the hook sites (between input plugins, per lattice position, after lookup, after each OOV provider, per best-path node, before each path-rewrite plugin, per split node, per MeCab category, per numeral/katakana joiner step, per sentence): races inside one such section, memory-ordering effects and the internals of regex / lazy_static / std::sync::Once are not explored".into(),
        "lazily built process-wide tables are initialised once per process, so only the first schedules can interleave their construction".into(),
        "the Python half of the statement rests on the same core (the extension links this library) and on PyO3's exclusive borrow of the tokenizer while the GIL is released; it is exercised separately by C19's Python driver, not by schedule enumeration".into(),
    ];
    sudachi::verif::set_sched_hook(Some(hook));
    let world = concurrency_world();
    let first = first_use_world();
    fn assert_send_sync<T: Send + Sync>() {}
    assert_send_sync::<sudachi::dic::dictionary::JapaneseDictionary>();
    let drivers = drivers_for(tier, &world, &first);
    if let Some(path) = replay {
        let txt = std::fs::read_to_string(&path).expect("replay file");
        let v: Value = serde_json::from_str(&txt).expect("json");
        let label = v["state"]["driver"].as_str().unwrap_or("");
        let choices: Vec<usize> = v["state"]["choices"].as_array().map(|a| a.iter().filter_map(|x| x.as_u64().map(|n| n as usize)).collect()).unwrap_or_default();
        if label == "free-run" {
            // the monitor has no schedule to replay: run it again
            return match free_rounds(tier, 200) {
                Ok(_) => {
                    println!("replay: the free-running monitor saw no difference in 200 rounds per driver");
                    0
                }
                Err(e) => {
                    println!("{}", e);
                    println!("VIOLATION property=C18 replay={}", path);
                    1
                }
            };
        }
        for (d, _) in &drivers {
            if d.label == label {
                let (expected, fp0) = d.sequential();
                let x = d.run(&choices);
                let bad = x.deadlock.is_some() || x.fingerprint != fp0 || x.results.iter().enumerate().any(|(i, r)| r.as_ref().ok() != Some(&expected[i]));
                if bad {
                    println!("VIOLATION property=C18 replay={}", path);
                    return 1;
                }
                println!("replay: property held on the recorded schedule");
                return 0;
            }
        }
        eprintln!("unknown driver in replay");
        return 2;
    }
    let cap_total = Duration::from_secs(tier.pick(270, 3000));
    let t0 = Instant::now();
    'outer: for (d, bounds) in &drivers {
        // sequential reference (also initialises every lazily built global before exploring)
        let (expected, fp0) = d.sequential();
        // the sequential run is itself deterministic across dictionary instances
        let (again, fp1) = d.sequential();
        if again != expected || fp1 != fp0 {
            panic!("two sequential runs on two newly loaded dictionaries differ (driver {})", d.label);
        }
        for &b in bounds {
            let remaining = cap_total.checked_sub(t0.elapsed()).unwrap_or(Duration::from_secs(1));
            let st = explore(d, b, &expected, fp0, remaining);
            let bound_json = json!({"driver": d.label, "preemption_bound": b, "schedules": st.schedules, "scheduling_points_per_execution_max": st.max_points});
            let completed = !st.capped && st.violation.is_none();
            rep.states += st.schedules;
            rep.generated += st.schedules;
            rep.transitions += st.points_total;
            rep.evaluations += st.schedules * d.jobs.len() as u64;
            rep.validated += st.schedules;
            rep.nontrivial += st.preempting_schedules;
            rep.distinct_observations += st.distinct_observations.len() as u64;
            rep.max_depth = rep.max_depth.max(st.max_points);
            for s in st.samples {
                if rep.samples.len() < 12 {
                    rep.samples.push(s);
                }
            }
            rep.parts.push(json!({"space": format!("{} / bound {}", d.label, b), "schedules": st.schedules, "scheduling_points_total": st.points_total, "max_points_per_execution": st.max_points, "distinct_traces": st.distinct_traces.len(), "distinct_observation_vectors": st.distinct_observations.len(), "schedules_with_preemption": st.preempting_schedules, "completed": completed}));
            if completed {
                rep.bounds.push(bound_json);
            }
            if st.capped {
                rep.caps_hit.push(format!("{} bound {}: time cap hit after {} schedules", d.label, b, st.schedules));
            }
            if let Some((choices, fails)) = st.violation {
                rep.violations.push((format!("{} / bound {}", d.label, b), json!({"driver": d.label, "choices": choices, "compact": compact(&choices)}), fails));
                break 'outer;
            }
            if st.capped {
                break 'outer;
            }
        }
    }
    sudachi::verif::set_sched_hook(None);
    if !rep.has_violation() {
        // free-running monitor (no scheduler, start barrier, a new dictionary per round)
        match free_rounds(tier, tier.pick(40, 200)) {
            Ok(n) => {
                rep.extra.insert("free_running_monitor".into(), json!({"rounds": n, "result": "every thread equal to its sequential run", "note": "monitor over free-running threads, not an enumeration"}));
            }
            Err(e) => {
                rep.violations.push(("free-running monitor".into(), json!({"driver": "free-run"}), vec![Failure::new("free-run-differs-from-sequential", e)]));
            }
        }
    }
    if tier == Tier::Thorough && !rep.has_violation() {
        // separate free-running pass of the same bodies under ThreadSanitizer: a monitor for
        // unsynchronised accesses that do not straddle a hook; it is not an enumeration
        match tsan_pass() {
            Ok(msg) => {
                rep.extra.insert("thread_sanitizer_pass".into(), json!({"result": "no report", "output": msg, "note": "monitor over free-running threads, not an enumeration"}));
            }
            Err(Ok(report)) => {
                rep.violations.push(("ThreadSanitizer free-running pass".into(), json!({"driver": "free-run"}), vec![Failure::new("data-race-or-divergence-in-free-run", report)]));
            }
            Err(Err(machinery)) => {
                rep.extra.insert("thread_sanitizer_pass".into(), json!({"result": "skipped", "reason": machinery}));
                println!("NOTE: ThreadSanitizer pass skipped: {}", machinery);
            }
        }
    }
    rep.extra.insert("explanation".into(), json!("states = complete schedules executed on the real code, transitions = scheduling decisions taken; every schedule is a real execution, so traces_validated_against_impl = schedules"));
    rep.finish()
}
