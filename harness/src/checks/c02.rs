//! C02 – the chosen segmentation is a minimum-cost lattice path.
//!
//! Obs: real lattice nodes (verif hook) + returned mode-C morphemes in worlds without
//! path-rewrite plugins.  Ref: brute-force enumeration of every node sequence tiling the text
//! (short texts) and an independent DP (all texts), with costs taken from get_word_param /
//! conn_matrix().cost and cross-checked against the declared CSV / matrix text.

use crate::common::evidence::{Report, Tier};
use crate::common::explore::*;
use crate::common::findings::Failure;
use crate::common::panics::catch;
use crate::common::refmodel::*;
use crate::common::worlds::*;
use serde_json::{json, Value};
use std::collections::BTreeSet;
use std::sync::Arc;
use sudachi::analysis::stateful_tokenizer::StatefulTokenizer;
use sudachi::analysis::stateless_tokenizer::DictionaryAccess;
use sudachi::analysis::Mode;
use sudachi::dic::word_id::WordId;
use sudachi::prelude::MorphemeList;
use sudachi::verif::{VerifLattice, VerifNode};

const P_HIRA: [&str; 6] = ["名詞", "普通名詞", "平仮名", "*", "*", "*"];

fn pseudo(i: usize, salt: usize) -> i32 {
    let x = (i as u64 * 2654435761 + salt as u64 * 40503 + 12345) % 100003;
    x as i32
}

pub fn cost_rows() -> Vec<Row> {
    let mut v = Vec::new();
    let syms = ["あ", "い"];
    let mut words: Vec<String> = Vec::new();
    for a in syms {
        words.push(a.to_string());
        for b in syms {
            words.push(format!("{}{}", a, b));
            for c in syms {
                words.push(format!("{}{}{}", a, b, c));
            }
        }
    }
    words.push("あう".into());
    words.push("うい".into());
    words.push("いうあ".into());
    for (i, w) in words.iter().enumerate() {
        let l = 1 + (pseudo(i, 1) % 5);
        let r = 1 + (pseudo(i, 2) % 5);
        let c = pseudo(i, 3) % 12000 - 3000;
        v.push(Row::new(w, l, r, c, P_HIRA));
    }
    // homographs
    v.push(Row::new("あ", 2, 4, 1500, P_NOUN));
    v.push(Row::new("あい", 5, 1, -500, P_NOUN));
    v.push(Row::new("い", 3, 3, 7000, P_PART));
    // a non-indexed entry (never a candidate)
    v.push(Row::new("いい", -1, 2, -30000, P_NOUN));
    v
}

pub fn cost_spec(name: &str) -> WorldSpec {
    WorldSpec {
        name: name.to_string(),
        char_def: shipped("char.def"),
        unk_def: "HIRAGANA,2,3,9000,名詞,普通名詞,一般,*,*,*\nDEFAULT,5,5,3857,補助記号,一般,*,*,*,*\n".to_string(),
        rewrite_def: String::new(),
        matrix: Matrix::distinct(6, 6),
        system: cost_rows(),
        users: vec![],
        plugins: json!({"oovProviderPlugin": [simple_oov(4, 2, 8000, P_SYM, true)]}),
        user_against_loaded: false,
    }
}

pub fn variants(tier: Tier) -> Vec<WorldSpec> {
    let mut v = Vec::new();
    v.push(cost_spec("W-cost-base"));
    let mut s = cost_spec("W-cost-word-max");
    s.system[2].cost = 32767;
    s.system[0].cost = 32767;
    v.push(s);
    let mut s = cost_spec("W-cost-word-min");
    s.system[1].cost = -32768;
    s.system[7].cost = -32768;
    v.push(s);
    let mut s = cost_spec("W-cost-cell-max");
    s.matrix.cells[2][3] = 32767;
    s.matrix.cells[0][1] = 32767;
    s.matrix.cells[4][0] = 32767;
    v.push(s);
    // every path has to cross a cell at the upper limit: the sentence-start row ...
    let mut s = cost_spec("W-cost-bos-row-max");
    for r in 0..6 {
        s.matrix.cells[0][r] = 32767;
    }
    v.push(s);
    // ... the sentence-end column ...
    let mut s = cost_spec("W-cost-eos-column-max");
    for l in 1..6 {
        s.matrix.cells[l][0] = 32767;
    }
    v.push(s);
    // ... or any cell at all except a few
    let mut s = cost_spec("W-cost-most-cells-max");
    s.matrix = Matrix::generate(6, 6, |l, r| if (l + 2 * r) % 5 == 0 { (l * 6 + r) as i32 } else { 32767 });
    v.push(s);
    let mut s = cost_spec("W-cost-most-cells-min");
    s.matrix = Matrix::generate(6, 6, |l, r| if (l + 2 * r) % 5 == 1 { (l * 6 + r) as i32 } else { -32768 });
    v.push(s);
    let mut s = cost_spec("W-cost-cell-min");
    s.matrix.cells[3][2] = -32768;
    s.matrix.cells[1][0] = -32768;
    v.push(s);
    let mut s = cost_spec("W-cost-ties");
    for r in s.system.iter_mut() {
        r.cost = 0;
    }
    s.matrix = Matrix::generate(6, 6, |_, _| 0);
    v.push(s);
    // non-square matrices: more right ids than left ids and the reverse
    let mut s = cost_spec("W-cost-matrix-8x6");
    s.matrix = Matrix::distinct(8, 6);
    for (i, r) in s.system.iter_mut().enumerate() {
        r.right = 1 + (pseudo(i, 5) % 7);
    }
    v.push(s);
    let mut s = cost_spec("W-cost-matrix-6x8");
    s.matrix = Matrix::distinct(6, 8);
    for (i, r) in s.system.iter_mut().enumerate() {
        if r.left >= 0 {
            r.left = 1 + (pseudo(i, 6) % 7);
        }
    }
    v.push(s);
    // more connection ids than any small per-boundary table would hold: eleven homographs with
    // eleven different left ids at one position, then repeats
    let mut s = cost_spec("W-cost-many-ids");
    s.matrix = Matrix::distinct(12, 12);
    for k in 1..=11i32 {
        s.system.push(Row::new("あ", k, (k * 5) % 11 + 1, 900 + 37 * ((k * 7) % 11), P_NOUN));
        s.system.push(Row::new("い", 12 - k, (k * 3) % 11 + 1, 1200 - 53 * ((k * 4) % 11), P_NOUN));
    }
    s.system.push(Row::new("あ", 1, 11, 400, P_PART));
    s.system.push(Row::new("あい", 2, 10, 700, P_PART));
    // ... and more than sixteen / thirty-two nodes ending at one boundary, the cheapest listed last
    for k in 0..24i32 {
        s.system.push(Row::new("あ", 1 + (k % 11), 1 + ((k * 7) % 11), 5000 - 190 * k, P_PROPN));
    }
    v.push(s);
    // more connection ids than a small cache has slots: ids that agree modulo 1024 (and 256)
    let mut s = cost_spec("W-cost-wide-ids");
    s.matrix = Matrix::generate(1100, 1100, |l, r| if l == 0 && r == 0 { 0 } else { ((l * 31 + r * 17 + (l / 256) * 977 + (r / 256) * 1231) % 4001) as i32 - 1500 });
    for (i, (l, r)) in [(7i32, 5i32), (7, 1029), (1031, 5), (7, 261), (263, 1029), (1031, 1029)].iter().enumerate() {
        s.system.push(Row::new("あ", *l, *r, 400 - 45 * i as i32, P_PROPN));
        s.system.push(Row::new("い", *l, *r, 150 + 35 * i as i32, P_PROPN));
    }
    v.push(s);
    // a connection-cost plugin that edits cells off the diagonal (the edited matrix is the one the
    // search has to use, and the cells have to be the configured ones)
    let mut s = cost_spec("W-cost-inhibit");
    s.plugins["connectionCostPlugin"] = json!([{"class": "com.worksap.nlp.sudachi.InhibitConnectionPlugin", "inhibitPair": [[1, 2], [3, 1], [0, 4], [5, 0]]}]);
    v.push(s);
    // words of letters: a word may not end inside a run of letters, which removes candidates
    // (prefixes of longer words, in the same and in another dictionary)
    let mut s = cost_spec("W-cost-latin");
    for (i, w) in ["a", "ab", "abc", "b", "bc", "c", "ca", "aあ", "あa"].iter().enumerate() {
        s.system.push(Row::new(w, 1 + (i as i32 % 5), 1 + ((i as i32 * 3) % 5), 300 + 211 * i as i32, P_NOUN));
    }
    s.users.push(vec![Row::new("a", 2, 3, 50, P_PROPN), Row::new("bc", 3, 2, 60, P_PROPN)]);
    v.push(s);
    let mut s = cost_spec("W-cost-user-layer");
    s.users.push(vec![Row::new("いう", 3, 2, -2000, P_NOUN), Row::new("あ", 1, 5, 100, P_PROPN), Row::new("ういう", 2, 2, 300, P_NOUN)]);
    s.users.push(vec![Row::new("う", 4, 4, 2500, P_NOUN), Row::new("あいう", 5, 5, -1000, P_NOUN)]);
    v.push(s);
    let mut s = cost_spec("W-cost-mecab");
    s.plugins = json!({"oovProviderPlugin": [mecab_oov(true), simple_oov(4, 2, 8000, P_SYM, true)]});
    v.push(s);
    // words that use connection id 0 (the id of the sentence start / end) on either side, and a
    // matrix whose cell (0,0) is not zero: nothing about id 0 is special for a word
    let mut s = cost_spec("W-cost-id-zero");
    s.matrix = Matrix::generate(6, 6, |l, r| 777 + ((l * 6 + r) as i32 * 131) % 1999 - 400 * ((l + r) as i32 % 3));
    for (i, r) in s.system.iter_mut().enumerate() {
        if r.left >= 0 {
            r.left = pseudo(i, 7) % 6;
        }
        r.right = pseudo(i, 8) % 6;
    }
    s.system[0].left = 0;
    s.system[0].right = 0;
    s.system.push(Row::new("い", 0, 0, 2100, P_NOUN));
    s.system.push(Row::new("あい", 0, 3, 2600, P_NOUN));
    v.push(s);
    if tier == Tier::Thorough {
        let mut s = cost_spec("W-cost-negative");
        for (i, r) in s.system.iter_mut().enumerate() {
            r.cost = -(pseudo(i, 9) % 20000) - 1;
        }
        s.matrix = Matrix::generate(6, 6, |l, r| if l == 0 && r == 0 { 0 } else { -((l * 37 + r * 91) as i32 % 5000) - (l * 6 + r) as i32 });
        v.push(s);
        let mut s = cost_spec("W-cost-regex");
        s.plugins = json!({"oovProviderPlugin": [regex_oov("う+", 1, 1, 4000, P_NOUN, 8, true), simple_oov(4, 2, 8000, P_SYM, true)]});
        v.push(s);
        // all single-cell and single-word deviations towards the limits
        for l in 0..3 {
            for r in 0..3 {
                let mut s = cost_spec(&format!("W-cost-cell-{}-{}-max", l, r));
                if l == 0 && r == 0 {
                    continue;
                }
                s.matrix.cells[l][r] = 32767;
                v.push(s);
            }
        }
    }
    v
}

pub struct CostSpace {
    pub world: Arc<World>,
    pub alpha: Vec<Sym>,
    pub bounds: TreeBounds,
    pub brute_force_len: usize,
}

fn lattice_of(dict: &Dict, text: &str, warm: bool) -> Result<(VerifLattice, Result<Vec<Tok>, AErr>), crate::common::panics::PanicInfo> {
    catch(|| {
        let mut tok = StatefulTokenizer::new(dict.clone(), Mode::C);
        let mut list = MorphemeList::empty(dict.clone());
        if warm {
            // history: a longer and a shorter input on the same tokenizer
            for w in ["あいうあいうあいうあいうあいう", "い"] {
                tok.reset().push_str(w);
                let _ = tok.do_tokenize();
                let _ = list.collect_results(&mut tok);
            }
        }
        tok.reset().push_str(text);
        let r = tok.do_tokenize().map_err(|e| classify_err(&e));
        let lat = tok.verif_lattice();
        let toks = match r {
            Ok(()) => list.collect_results(&mut tok).map(|_| toks_of(&list)).map_err(|e| classify_err(&e)),
            Err(e) => Err(e),
        };
        (lat, toks)
    })
}

fn nodes_by_begin(lat: &VerifLattice, n: usize) -> Vec<Vec<VerifNode>> {
    let mut v = vec![Vec::new(); n + 1];
    for row in &lat.ends {
        for nd in row {
            if nd.begin <= n {
                v[nd.begin].push(nd.clone());
            }
        }
    }
    v
}

impl CostSpace {
    fn conn(&self, l: u16, r: u16) -> i64 {
        self.world.dict.grammar().conn_matrix().cost(l, r) as i64
    }

    fn brute(&self, by_begin: &Vec<Vec<VerifNode>>, n: usize, pos: usize, prev_right: u16, acc: i64, best: &mut i64, paths: &mut u64) {
        if pos == n {
            *paths += 1;
            let t = acc + self.conn(prev_right, 0);
            if t < *best {
                *best = t;
            }
            return;
        }
        for nd in &by_begin[pos] {
            let c = acc + self.conn(prev_right, nd.left_id) + nd.cost as i64;
            self.brute(by_begin, n, nd.end, nd.right_id, c, best, paths);
        }
    }
}

impl Space for CostSpace {
    type State = Vec<u8>;
    fn name(&self) -> String {
        format!("{}/texts", self.world.name())
    }
    fn init(&self) -> Vec<Vec<u8>> {
        vec![vec![]]
    }
    fn next(&self, s: &Vec<u8>, out: &mut Vec<Vec<u8>>) {
        tree_next(&self.alpha, &self.bounds, s, out)
    }
    fn check(&self, s: &Vec<u8>) -> Outcome {
        let mut o = Outcome::new();
        let text = tree_text(&self.alpha, s);
        if text.is_empty() {
            return o;
        }
        let dict = &self.world.dict;
        let wname = self.world.name();
        o.evaluations = 2;
        let (lat, toks) = match lattice_of(dict, &text, true) {
            Err(p) => {
                o.fail(Failure::panic(&format!("{} {:?}", wname, text), &p));
                return o;
            }
            Ok(x) => x,
        };
        let toks = match toks {
            Err(e) => {
                o.fail(Failure::new("analysis-error", format!("[{}] {:?}: {:?}", wname, text, e)));
                return o;
            }
            Ok(t) => t,
        };
        let chars: Vec<char> = text.chars().collect();
        let n = chars.len();
        let coff: Vec<usize> = text.char_indices().map(|(b, _)| b).chain(std::iter::once(text.len())).collect();
        // ---- (2) reused tokenizer builds the same lattice as a fresh one
        match lattice_of(dict, &text, false) {
            Err(p) => o.fail(Failure::panic(&format!("{} fresh {:?}", wname, text), &p)),
            Ok((fresh, ftoks)) => {
                // (as multisets per end position: the order of insertion is nobody's business)
                let canon = |l: &sudachi::verif::VerifLattice| -> Vec<Vec<String>> {
                    l.ends
                        .iter()
                        .map(|v| {
                            let mut k: Vec<String> = v.iter().map(|nd| format!("{:?}", nd)).collect();
                            k.sort();
                            k
                        })
                        .collect()
                };
                if canon(&fresh) != canon(&lat) || fresh.size != lat.size {
                    o.fail(Failure::new("stale-lattice", format!("[{}] {:?}: lattice on a reused tokenizer differs from a fresh one: {:?} vs {:?}", wname, text, lat.ends, fresh.ends)));
                }
                if ftoks.as_ref().ok() != Some(&toks) {
                    o.fail(Failure::new("stale-result", format!("[{}] {:?}: result on a reused tokenizer differs from a fresh one", wname, text)));
                }
            }
        }
        if lat.size != n + 1 {
            o.fail(Failure::new("lattice-size", format!("[{}] {:?}: lattice size {} expected {}", wname, text, lat.size, n + 1)));
            return o;
        }
        let observed = nodes_by_begin(&lat, n);
        let lex = dict.lexicon();
        let rows = self.world.all_rows();
        // ---- node parameters and dictionary node set vs the declared CSV
        let mut reachable = vec![false; n + 1];
        reachable[0] = true;
        // the candidate words of the statement: every indexed dictionary row that matches at a
        // position (from the CSV, independent of what the lattice holds) + the OOV nodes offered
        // (a word is a candidate only if another word may begin where it ends: the word-start table
        // of the text, taken from a buffer built independently of the lattice builder)
        let word_start: Vec<bool> = {
            use sudachi::input_text::{InputBuffer, InputTextIndex};
            let mut buf = InputBuffer::new();
            buf.reset().push_str(&text);
            let ok = buf.start_build().is_ok() && buf.build(dict.grammar()).is_ok();
            (0..=text.len()).map(|b| !ok || b >= text.len() || (text.is_char_boundary(b) && buf.can_bow(b))).collect()
        };
        let mut by_begin: Vec<Vec<VerifNode>> = vec![Vec::new(); n + 1];
        for p in 0..n {
            for (d, i, row) in &rows {
                if row.left < 0 || row.surface.is_empty() {
                    continue;
                }
                if text[coff[p]..].starts_with(row.surface.as_str()) {
                    let end_b = coff[p] + row.surface.len();
                    if !word_start[end_b] {
                        continue;
                    }
                    let end_c = coff.iter().position(|&b| b == end_b).unwrap();
                    let wid = WordId::new(*d as u8, *i as u32);
                    let auto_cost = *d > 0 && row.cost == -32768;
                    let cost = if auto_cost { lex.get_word_param(wid).2 } else { row.cost as i16 };
                    by_begin[p].push(VerifNode { begin: p, end: end_c, word_id: wid.as_raw(), left_id: row.left as u16, right_id: row.right as u16, cost, total_cost: 0, prev: (u16::MAX, u16::MAX) });
                }
            }
            for nd in &observed[p] {
                if (nd.word_id >> 28) == 0xf && nd.end <= n && nd.end > nd.begin {
                    by_begin[p].push(nd.clone());
                }
            }
        }
        for p in 0..n {
            if !reachable[p] {
                // nodes nothing can connect to are harmless
                o.count("nodes_at_unreachable_positions", observed[p].len() as u64);
                continue;
            }
            let mut obs: BTreeSet<(usize, u32)> = BTreeSet::new();
            for nd in &observed[p] {
                if nd.end > n || nd.end <= nd.begin {
                    o.fail(Failure::new("node-range", format!("[{}] {:?}: node {:?}", wname, text, nd)));
                    return o;
                }
                reachable[nd.end] = true;
                o.count("lattice_nodes", 1);
                if (nd.word_id >> 28) != 0xf {
                    obs.insert((nd.end, nd.word_id));
                    let (l, r, c) = lex.get_word_param(WordId::from_raw(nd.word_id));
                    if (l as u16, r as u16, c) != (nd.left_id, nd.right_id, nd.cost) {
                        o.fail(Failure::new("node-params", format!("[{}] {:?}: node {:?} but word params are {:?}", wname, text, nd, (l, r, c))));
                    }
                }
            }
            let mut exp: BTreeSet<(usize, u32)> = BTreeSet::new();
            for (d, i, row) in &rows {
                if row.left < 0 {
                    continue;
                }
                if text[coff[p]..].starts_with(row.surface.as_str()) {
                    let end_b = coff[p] + row.surface.len();
                    let end_c = coff.iter().position(|&b| b == end_b).unwrap();
                    exp.insert((end_c, WordId::new(*d as u8, *i as u32).as_raw()));
                }
            }
            if obs != exp {
                // not a failure by itself: the minimum below is taken over the candidates of the
                // naive scan, so a candidate missing from the lattice shows as a cost difference
                o.count("positions_where_lattice_differs_from_naive_scan", 1);
            }
            // declared parameters
            for nd in &observed[p] {
                if (nd.word_id >> 28) != 0xf {
                    let d = (nd.word_id >> 28) as usize;
                    let i = (nd.word_id & 0x0fff_ffff) as usize;
                    if let Some((_, _, row)) = rows.iter().find(|(dd, ii, _)| *dd == d && *ii == i) {
                        let auto_cost = d > 0 && row.cost == -32768;
                        if row.left != nd.left_id as i32 || row.right != nd.right_id as i32 || (!auto_cost && row.cost != nd.cost as i32) {
                            o.fail(Failure::new("node-params-vs-csv", format!("[{}] {:?}: node {:?} but the CSV declares ({},{},{})", wname, text, nd, row.left, row.right, row.cost)));
                        }
                    }
                }
            }
        }
        // connection costs vs the declared matrix (for the ids that occur)
        let m = &self.world.spec.matrix;
        // (every cell once per world, not once per text)
        static MATRIX_CHECKED: std::sync::Mutex<Vec<String>> = std::sync::Mutex::new(Vec::new());
        let first_time = {
            let mut g = MATRIX_CHECKED.lock().unwrap();
            if g.iter().any(|n| n == wname) {
                false
            } else {
                g.push(wname.to_string());
                true
            }
        };
        let inhibited: Vec<(usize, usize)> = self.world.spec.plugins.get("connectionCostPlugin").and_then(|p| p.as_array()).map(|a| a.iter().flat_map(|pl| pl["inhibitPair"].as_array().cloned().unwrap_or_default()).filter_map(|pr| Some((pr[0].as_u64()? as usize, pr[1].as_u64()? as usize))).collect()).unwrap_or_default();
        for l in 0..(if first_time { m.left } else { 0 }) {
            for r in 0..m.right {
                let declared = if inhibited.contains(&(l, r)) { 32767 } else { m.cells[l][r] };
                if self.conn(l as u16, r as u16) != declared as i64 {
                    o.fail(Failure::new("connection-cost-vs-matrix", format!("[{}] cost({}, {}) = {} but the matrix text (with the configured inhibited pairs) says {}", wname, l, r, self.conn(l as u16, r as u16), declared)));
                }
            }
        }
        // ---- reference minimum: DP over the observed nodes
        const INF: i64 = i64::MAX / 4;
        // best cost of a path from BOS ending with node k (nodes indexed per end position)
        let mut ends: Vec<Vec<(u16, i64)>> = vec![Vec::new(); n + 1]; // (right id, best)
        ends[0].push((0, 0));
        let mut order: Vec<&VerifNode> = by_begin.iter().flatten().collect();
        order.sort_by_key(|nd| (nd.begin, nd.end));
        // process by begin position ascending: all nodes ending at `begin` are complete
        for p in 0..n {
            let here: Vec<&VerifNode> = order.iter().filter(|nd| nd.begin == p).cloned().collect();
            for nd in here {
                let mut best = INF;
                for (pr, pc) in &ends[p] {
                    if *pc >= INF {
                        continue;
                    }
                    let c = pc + self.conn(*pr, nd.left_id) + nd.cost as i64;
                    if c < best {
                        best = c;
                    }
                }
                if best < INF {
                    ends[nd.end].push((nd.right_id, best));
                }
                o.count("connections_evaluated", ends[p].len() as u64);
            }
        }
        let mut ref_min = INF;
        for (pr, pc) in &ends[n] {
            let c = pc + self.conn(*pr, 0);
            if c < ref_min {
                ref_min = c;
            }
        }
        if n <= self.brute_force_len {
            let mut bf = INF;
            let mut paths = 0u64;
            self.brute(&by_begin, n, 0, 0, 0, &mut bf, &mut paths);
            o.count("paths_enumerated", paths);
            if bf != ref_min {
                o.fail(Failure::new("reference-inconsistent", format!("[{}] {:?}: brute force minimum {} but DP minimum {}", wname, text, bf, ref_min)));
            }
        }
        // ---- the returned path
        let mut cum: i64 = 0;
        let mut prev_right: u16 = 0;
        let mut pos = 0usize;
        for (i, t) in toks.iter().enumerate() {
            let node = by_begin.get(t.begin_c).and_then(|v| v.iter().find(|nd| nd.end == t.end_c && nd.word_id == t.word_id));
            let node = match node {
                Some(nd) => nd,
                None => {
                    o.fail(Failure::new("path-node-not-a-candidate", format!("[{}] {:?}: token {} ({}..{} word {:#x}) is neither a dictionary word matching there nor an offered OOV node", wname, text, i, t.begin_c, t.end_c, t.word_id)));
                    return o;
                }
            };
            if t.begin_c != pos {
                o.fail(Failure::new("path-not-contiguous", format!("[{}] {:?}: token {} begins at {} expected {}", wname, text, i, t.begin_c, pos)));
                return o;
            }
            pos = t.end_c;
            cum += self.conn(prev_right, node.left_id) + node.cost as i64;
            prev_right = node.right_id;
            if t.total_cost as i64 != cum {
                o.fail(Failure::new("cumulative-cost", format!("[{}] {:?}: token {} reports total_cost {} but the path recomputed from word parameters and matrix gives {}", wname, text, i, t.total_cost, cum)));
            }
        }
        if pos != n {
            o.fail(Failure::new("path-incomplete", format!("[{}] {:?}: path ends at {} of {}", wname, text, pos, n)));
            return o;
        }
        let total = cum + self.conn(prev_right, 0);
        if total != ref_min {
            o.fail(Failure::new("not-minimum-cost", format!("[{}] {:?}: chosen path costs {} (incl. sentence-end connection), the cheapest candidate sequence costs {}", wname, text, total, ref_min)));
        }
        if toks.len() > 1 && by_begin.iter().flatten().count() > toks.len() {
            o.count("candidate_nodes", by_begin.iter().flatten().count() as u64);
            o.nontrivial = true;
        }
        o.observe(&(total, toks.len()));
        o
    }
    fn describe(&self, s: &Vec<u8>) -> Value {
        json!({"world": self.world.name(), "symbols": s, "text": tree_text(&self.alpha, s)})
    }
    fn parse(&self, v: &Value) -> Option<Vec<u8>> {
        Some(v["symbols"].as_array()?.iter().filter_map(|x| x.as_u64().map(|n| n as u8)).collect())
    }
}

fn spec_name_is_latin(w: &World) -> bool {
    w.name() == "W-cost-latin"
}

pub fn main(tier: Tier, replay: Option<String>) -> i32 {
    let mut rep = Report::new("C02", "model_checking", tier);
    rep.rule = "states = every text over {あ,い,う} up to the bound, in every cost world (baseline and deviations: word costs / matrix cells at the i16 limits, ties, negative costs, layered user dictionaries, MeCab / regex OOV providers); the candidate words are computed independently (every indexed CSV row that matches at a position, with its declared ids and cost) plus the OOV nodes the real lattice offers (read through the verif hook); every tiling candidate sequence is enumerated (brute force up to brute_force_len, DP beyond) and the returned path must consist of candidates, its recomputed cumulative costs must equal total_cost() and its total the minimum; lattice nodes are compared with the dictionary word parameters and the CSV, differences between the lattice node set and the naive scan are counted (a missing candidate shows as a cost difference); non-trivial = the lattice offers alternatives and the path has more than one token".into();
    rep.assumptions = vec![
        "worlds without path-rewrite plugins, so the mode-C result is the Viterbi path itself".into(),
        "text lengths stay far below the i32 accumulation limit (that is C03's known finding)".into(),
        "user-dictionary rows with cost -32768 get a computed cost by design; their declared cost is not compared".into(),
    ];
    let mut jobs: Vec<Box<dyn AnyJob>> = Vec::new();
    for spec in variants(tier) {
        let w = Arc::new(World::build(spec).unwrap_or_else(|e| panic!("cost world: {}", e)));
        let bounds = TreeBounds::full(if spec_name_is_latin(&w) { tier.pick(7, 9) } else { tier.pick(9, 11) });
        let b = json!({"tree": bounds.to_json(), "brute_force_len": tier.pick(5, 6)});
        jobs.push(job(
            CostSpace { alpha: if w.name() == "W-cost-latin" { syms(&["a", "b", "c", "あ"], &[]) } else { syms(&["あ", "い", "う"], &[]) }, world: w, bounds, brute_force_len: tier.pick(5, 6) },
            Strategy::Bfs,
            Some(tier.pick(30, 1500)),
            b,
        ));
    }
    drive(rep, jobs, replay)
}
