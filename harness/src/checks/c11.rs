//! C11 – loading a subset of word fields never changes the fields that were requested.

use crate::checks::inv::partition_failures;
use crate::common::evidence::{Report, Tier};
use crate::common::explore::*;
use crate::common::findings::Failure;
use crate::common::panics::catch;
use crate::common::refmodel::*;
use crate::common::worlds::*;
use serde_json::{json, Value};
use std::sync::Arc;
use sudachi::analysis::stateful_tokenizer::StatefulTokenizer;
use sudachi::analysis::stateless_tokenizer::DictionaryAccess;
use sudachi::analysis::Mode;
use sudachi::dic::lexicon::word_infos::WordInfo;
use sudachi::dic::subset::InfoSubset;
use sudachi::dic::word_id::WordId;
use sudachi::prelude::MorphemeList;

/// (field name, value) for every requested field, read through the public accessors
fn requested_fields(wi: &WordInfo, s: InfoSubset) -> Vec<(&'static str, String)> {
    let mut v = Vec::new();
    if s.contains(InfoSubset::SURFACE) {
        v.push(("surface", wi.surface().to_string()));
    }
    if s.contains(InfoSubset::HEAD_WORD_LENGTH) {
        v.push(("head_word_length", wi.head_word_length().to_string()));
    }
    if s.contains(InfoSubset::POS_ID) {
        v.push(("pos_id", wi.pos_id().to_string()));
    }
    if s.contains(InfoSubset::NORMALIZED_FORM) {
        v.push(("normalized_form", wi.normalized_form().to_string()));
    }
    if s.contains(InfoSubset::DIC_FORM_WORD_ID) {
        v.push(("dictionary_form_word_id", wi.dictionary_form_word_id().to_string()));
        v.push(("dictionary_form", wi.dictionary_form().to_string()));
    }
    if s.contains(InfoSubset::READING_FORM) {
        v.push(("reading_form", wi.reading_form().to_string()));
    }
    if s.contains(InfoSubset::SPLIT_A) {
        v.push(("a_unit_split", format!("{:?}", wi.a_unit_split())));
    }
    if s.contains(InfoSubset::SPLIT_B) {
        v.push(("b_unit_split", format!("{:?}", wi.b_unit_split())));
    }
    if s.contains(InfoSubset::WORD_STRUCTURE) {
        v.push(("word_structure", format!("{:?}", wi.word_structure())));
    }
    if s.contains(InfoSubset::SYNONYM_GROUP_ID) {
        v.push(("synonym_group_ids", format!("{:?}", wi.synonym_group_ids())));
    }
    v
}

fn word_ids(w: &World) -> Vec<WordId> {
    w.all_rows().iter().map(|(d, i, _)| WordId::new(*d as u8, *i as u32)).collect()
}

/// part 1: every word x every subset through the lexicon API and through a tokenizer
fn words_space(w: Arc<World>) -> CaseSpace<u32> {
    let cases: Vec<u32> = (0..1024).collect();
    let w2 = w.clone();
    CaseSpace {
        label: format!("{}/words-x-subsets", w.name()),
        cases,
        check_fn: Box::new(move |bits: &u32| {
            let mut o = Outcome::new();
            let s = InfoSubset::from_bits_truncate(*bits);
            let dict = &w2.dict;
            let lex = dict.lexicon();
            o.nontrivial = *bits != 1023;
            for wid in word_ids(&w2) {
                o.evaluations += 1;
                let r = catch(|| {
                    let full = lex.get_word_info_subset(wid, InfoSubset::all()).map_err(|e| format!("{}", e))?;
                    let part = lex.get_word_info_subset(wid, s.normalize()).map_err(|e| format!("{}", e))?;
                    Ok::<_, String>((requested_fields(&full, s), requested_fields(&part, s)))
                });
                match r {
                    Err(p) => o.fail(Failure::panic(&format!("word {:?} subset {:?}", wid, s), &p)),
                    Ok(Err(e)) => o.fail(Failure::new("word-info-error", format!("word {:?} subset {:?}: {}", wid, s, e))),
                    Ok(Ok((f, p))) => {
                        for (a, b) in f.iter().zip(p.iter()) {
                            if a != b {
                                o.fail(Failure::new("requested-field-differs", format!("[lexicon API] word {:?} subset {:?}: {} = {:?}, with all fields loaded it is {:?}", wid, s, a.0, b.1, a.1)));
                            }
                        }
                    }
                }
            }
            // through a tokenizer: analyse every key, compare tokens of the same word
            let rows = w2.all_rows();
            for (d, i, row) in rows {
                if row.left < 0 {
                    continue;
                }
                let wid = WordId::new(d as u8, i as u32).as_raw();
                o.evaluations += 1;
                let r = catch(|| {
                    let mut out = Vec::new();
                    for sub in [None, Some(s)] {
                        let mut tok = StatefulTokenizer::new(dict.clone(), Mode::C);
                        if let Some(x) = sub {
                            tok.set_subset(x);
                        }
                        tok.reset().push_str(&row.surface);
                        tok.do_tokenize().map_err(|e| format!("{}", e))?;
                        let mut list = MorphemeList::empty(dict.clone());
                        list.collect_results(&mut tok).map_err(|e| format!("{}", e))?;
                        let v: Vec<(u32, Vec<(&'static str, String)>)> = list.iter().map(|m| (m.word_id().as_raw(), requested_fields(m.get_word_info(), s))).collect();
                        out.push(v);
                    }
                    Ok::<_, String>(out)
                });
                match r {
                    Err(p) => o.fail(Failure::panic(&format!("tokenizing {:?} with subset {:?}", row.surface, s), &p)),
                    Ok(Err(_)) => o.count("rejected", 1),
                    Ok(Ok(out)) => {
                        let full: Vec<_> = out[0].iter().filter(|(w, _)| *w == wid).collect();
                        let part: Vec<_> = out[1].iter().filter(|(w, _)| *w == wid).collect();
                        if let (Some(f), Some(p)) = (full.first(), part.first()) {
                            for (a, b) in f.1.iter().zip(p.1.iter()) {
                                if a != b {
                                    o.fail(Failure::new("requested-field-differs", format!("[tokenizer] word {:#x} {:?} subset {:?}: {} = {:?}, with all fields loaded it is {:?}", wid, row.surface, s, a.0, b.1, a.1)));
                                }
                            }
                        }
                    }
                }
            }
            o.observe(bits);
            o
        }),
        describe_fn: Box::new(|b: &u32| json!({"subset_bits": b, "subset": format!("{:?}", InfoSubset::from_bits_truncate(*b))})),
    }
}

/// part 2: texts x all subsets x modes x order of set_mode / set_subset
pub struct SubsetTexts {
    pub world: Arc<World>,
    pub has_rewrite: bool,
    pub alpha: Vec<Sym>,
    pub bounds: TreeBounds,
    pub subsets: Vec<u32>,
}

/// order 0: set_mode then set_subset; 1: set_subset then set_mode; 2: set_subset, then the mode is
/// reached through another one (what a per-call mode override followed by its restoration does)
fn run(dict: &Dict, mode: Mode, s: Option<InfoSubset>, order: u8, text: &str) -> Result<Vec<Tok>, AErr> {
    let mut tok = StatefulTokenizer::new(dict.clone(), Mode::C);
    if order == 0 {
        tok.set_mode(mode);
        if let Some(x) = s {
            tok.set_subset(x);
        }
    } else {
        if let Some(x) = s {
            tok.set_subset(x);
        }
        if order == 2 {
            tok.set_mode(match mode {
                Mode::A => Mode::B,
                Mode::B => Mode::C,
                Mode::C => Mode::A,
            });
        }
        tok.set_mode(mode);
    }
    let mut list = MorphemeList::empty(dict.clone());
    tok.reset().push_str(text);
    tok.do_tokenize().map_err(|e| classify_err(&e))?;
    list.collect_results(&mut tok).map_err(|e| classify_err(&e))?;
    Ok(toks_of(&list))
}

/// order 3: the field request is made first, a result is collected into the list that is used
/// throughout, then the mode is set and the text is analysed twice into that same list
fn run_with_reused_list(dict: &Dict, mode: Mode, s: InfoSubset, text: &str) -> Result<Vec<Tok>, AErr> {
    let mut tok = StatefulTokenizer::new(dict.clone(), Mode::C);
    let mut list = MorphemeList::empty(dict.clone());
    tok.set_subset(s);
    // (another text, then the text itself: whatever the tokenizer remembers about these very words
    // was learnt before the mode - and with it the fields to load - changed)
    for warm in ["京", text] {
        tok.reset().push_str(warm);
        tok.do_tokenize().map_err(|e| classify_err(&e))?;
        list.collect_results(&mut tok).map_err(|e| classify_err(&e))?;
    }
    tok.set_mode(mode);
    for _ in 0..2 {
        tok.reset().push_str(text);
        tok.do_tokenize().map_err(|e| classify_err(&e))?;
        list.collect_results(&mut tok).map_err(|e| classify_err(&e))?;
    }
    Ok(toks_of(&list))
}

fn tok_fields(t: &Tok, s: InfoSubset) -> Vec<String> {
    let mut v = Vec::new();
    if s.contains(InfoSubset::SURFACE) {
        v.push(t.wi_surface.clone());
    }
    if s.contains(InfoSubset::POS_ID) {
        v.push(format!("{:?}", t.pos));
    }
    if s.contains(InfoSubset::NORMALIZED_FORM) {
        v.push(t.normalized.clone());
    }
    if s.contains(InfoSubset::DIC_FORM_WORD_ID) {
        v.push(t.dictionary.clone());
    }
    if s.contains(InfoSubset::READING_FORM) {
        v.push(t.reading.clone());
    }
    if s.contains(InfoSubset::SYNONYM_GROUP_ID) {
        v.push(format!("{:?}", t.synonyms));
    }
    if s.contains(InfoSubset::WORD_STRUCTURE) {
        v.push(format!("{:?}", t.word_structure));
    }
    if s.contains(InfoSubset::SPLIT_A) {
        v.push(format!("A{:?}", t.a_split));
    }
    if s.contains(InfoSubset::SPLIT_B) {
        v.push(format!("B{:?}", t.b_split));
    }
    v
}

impl Space for SubsetTexts {
    type State = Vec<u8>;
    fn name(&self) -> String {
        format!("{}/texts-x-subsets", self.world.name())
    }
    fn init(&self) -> Vec<Vec<u8>> {
        vec![vec![]]
    }
    fn next(&self, s: &Vec<u8>, out: &mut Vec<Vec<u8>>) {
        tree_next(&self.alpha, &self.bounds, s, out)
    }
    fn check(&self, st: &Vec<u8>) -> Outcome {
        let mut o = Outcome::new();
        let text = tree_text(&self.alpha, st);
        if text.is_empty() {
            return o;
        }
        let dict = &self.world.dict;
        let need = InfoSubset::SURFACE | InfoSubset::POS_ID | InfoSubset::NORMALIZED_FORM;
        for mode in MODES {
            let full = match catch(|| run(dict, mode, None, 0, &text)) {
                Ok(Ok(t)) => t,
                Ok(Err(_)) => {
                    o.count("rejected", 1);
                    continue;
                }
                Err(p) => {
                    o.fail(Failure::panic(&format!("full {:?}", text), &p));
                    continue;
                }
            };
            for &bits in &self.subsets {
                let s = InfoSubset::from_bits_truncate(bits);
                for order in [0u8, 1, 2, 3] {
                    o.evaluations += 1;
                    let ctx = format!("[{} mode {} subset {:?} {}] {:?}", self.world.name(), mode_name(mode), s, ["set_mode then set_subset", "set_subset then set_mode", "set_subset, then the mode reached through another mode", "set_subset, a collected analysis, set_mode, second analysis into the same list"][order as usize], text);
                    match catch(|| if order == 3 { run_with_reused_list(dict, mode, s, &text) } else { run(dict, mode, Some(s), order, &text) }) {
                        Err(p) => o.fail(Failure::panic(&ctx, &p)),
                        Ok(Err(e)) => o.fail(Failure::new("error-with-subset", format!("{}: {:?}", ctx, e))),
                        Ok(Ok(t)) => {
                            for f in partition_failures(&text, &t, 0, text.len(), &ctx) {
                                o.fail(f);
                            }
                            if !self.has_rewrite || s.contains(need) {
                                let a: Vec<(usize, usize, u32)> = t.iter().map(|x| (x.begin, x.end, x.word_id)).collect();
                                let b: Vec<(usize, usize, u32)> = full.iter().map(|x| (x.begin, x.end, x.word_id)).collect();
                                if a != b {
                                    o.fail(Failure::new("tokens-differ-from-full-analysis", format!("{}: tokens {:x?}, with all fields {:x?}", ctx, a, b)));
                                } else {
                                    for (x, y) in t.iter().zip(full.iter()) {
                                        if tok_fields(x, s) != tok_fields(y, s) {
                                            o.fail(Failure::new("requested-field-differs", format!("{}: token {:?} requested fields {:?}, with all fields {:?}", ctx, x.surface, tok_fields(x, s), tok_fields(y, s))));
                                        }
                                    }
                                }
                            }
                            if bits != 1023 {
                                o.nontrivial = true;
                            }
                        }
                    }
                }
            }
        }
        o.observe(st);
        o
    }
    fn describe(&self, s: &Vec<u8>) -> Value {
        json!({"world": self.world.name(), "symbols": s, "text": tree_text(&self.alpha, s)})
    }
    fn parse(&self, v: &Value) -> Option<Vec<u8>> {
        Some(v["symbols"].as_array()?.iter().filter_map(|x| x.as_u64().map(|n| n as u8)).collect())
    }
}

pub fn c11_spec(name: &str, rewrite: bool) -> WorldSpec {
    let mut s = spec_user(name, 2, rewrite);
    // strings of 127..255 UTF-16 units: two-byte length prefixes must be skipped correctly
    let long = |c: char, n: usize| -> String { std::iter::repeat(c).take(n).collect() };
    let base = s.system.len();
    s.system.push(Row::new("長", 7, 7, 3000, P_NOUN).reading(&long('ア', 130)).norm(&long('亜', 127)).synonyms("3/4").structure("0/1"));
    s.system.push(Row::new("長い", 7, 7, 3000, P_NOUN).reading(&long('イ', 255)).norm("長い").dic_form(&format!("{}", base)).splits("C", &format!("{}/26", base), &format!("{}/26", base)).synonyms("9"));
    s.system.push(Row::new("い", 3, 3, 4000, P_PART).headword(&long('い', 128)).reading("イ"));
    // ... of 256 and more units (both bytes of the prefix carry bits), counted in UTF-16 units (astral)
    s.system.push(Row::new("大", 7, 7, 3000, P_NOUN).reading(&long('ウ', 256)).norm(&long('𠮷', 128)).synonyms("5/6").structure("0/1").splits("C", "0/1", "1/0"));
    s.system.push(Row::new("大き", 7, 7, 3000, P_NOUN).headword(&long('大', 300)).reading(&long('エ', 1000)).synonyms("8"));
    // arrays of 63, 64 and 127 items (the byte size of an array of 64 items no longer fits eight bits)
    let arr = |n: usize| -> String { vec!["0"; n].join("/") };
    s.system.push(Row::new("列", 7, 7, 3000, P_NOUN).splits("C", &arr(63), &arr(64)).structure(&arr(127)).synonyms("11/12"));
    s.system.push(Row::new("列ぶ", 7, 7, 3000, P_NOUN).splits("C", &arr(64), &arr(100)).structure(&arr(65)).synonyms(&(0..100).map(|i| i.to_string()).collect::<Vec<_>>().join("/")));
    s
}

pub fn main(tier: Tier, replay: Option<String>) -> i32 {
    let mut rep = Report::new("C11", "model_checking", tier);
    rep.rule = "part 1: every word of a world with two user dictionaries (with / without synonym ids, elided and non-elided forms, own and foreign dictionary forms, strings across the one-byte/two-byte length prefix) x all 1024 field subsets, through LexiconSet::get_word_info_subset(normalize()) and through a tokenizer after set_subset; part 2: every text within the bound x all 1024 subsets x modes A/B/C x four call orders (set_mode then set_subset, the reverse, the mode reached through another mode after set_subset, and a reused result list with an analysis between set_subset and set_mode); requested fields must equal the all-fields values, surfaces must partition the input, tokens must equal the full analysis when no path-rewrite plugin is configured or the subset covers surface, POS and normalised form; non-trivial = a proper subset was requested".into();
    rep.assumptions = vec!["at the raw lexicon API the request is closed with InfoSubset::normalize() first (the documented closure)".into()];
    let mut jobs: Vec<Box<dyn AnyJob>> = Vec::new();
    // The worlds are valid input that builds on a correct tree.  Building the user dictionaries
    // reads the system dictionary through a field subset (surface, reading, POS); if that fails
    // the failure is reported as a violation of this property instead of a machinery error.
    let mut built = Vec::new();
    for (name, rw) in [("W-c11-norewrite", false), ("W-c11-rewrite", true)] {
        match catch(|| World::build(c11_spec(name, rw))) {
            Ok(Ok(w)) => built.push(Arc::new(w)),
            Ok(Err(e)) => {
                rep.add_direct("world-construction", 1, 1, 1, vec![json!(name)], vec![(json!({"world": name}), Failure::new("valid-dictionary-not-usable", format!("building world {} failed: {}", name, e)))], json!({}));
                return rep.finish();
            }
            Err(p) => {
                rep.add_direct("world-construction", 1, 1, 1, vec![json!(name)], vec![(json!({"world": name}), Failure::panic(&format!("building world {}", name), &p))], json!({}));
                return rep.finish();
            }
        }
    }
    let w_plain = built[0].clone();
    let w_rw = built[1].clone();
    jobs.push(job(words_space(w_plain.clone()), Strategy::Bfs, Some(tier.pick(60, 600)), json!({"subsets": 1024, "words": w_plain.all_rows().len()})));
    let alpha = syms(&["東", "京", "都", "府", "長", "い"], &["1", "一", "a", "b", "㍿", "行", "っ", "く", "ア", "す", "だ", "ち"]);
    let all: Vec<u32> = (0..1024).collect();
    for (w, has_rewrite) in [(w_plain, false), (w_rw, true)] {
        let bounds = tier.pick(TreeBounds { full_len: 1, ext_len: 2, max_special: 0 }, TreeBounds { full_len: 2, ext_len: 3, max_special: 1 });
        let b = json!({"tree": bounds.to_json(), "subsets": 1024, "modes": 3, "orders": 4});
        jobs.push(job(SubsetTexts { world: w, has_rewrite, alpha: alpha.clone(), bounds, subsets: all.clone() }, Strategy::Dfs, Some(tier.pick(60, 3000)), b));
    }
    drive(rep, jobs, replay)
}
