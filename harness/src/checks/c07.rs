//! C07 – text normalisation is the specified context-free function of the input.

use crate::common::evidence::{Report, Tier};
use crate::common::explore::*;
use crate::common::findings::Failure;
use crate::common::panics::catch;
use crate::common::refmodel::*;
use crate::common::worlds::*;
use serde_json::{json, Value};
use std::sync::Arc;
use sudachi::analysis::stateless_tokenizer::DictionaryAccess;
use sudachi::dic::category_type::CategoryType;
use sudachi::input_text::InputBuffer;

/// run the world's input-text plugins on a fresh buffer
fn rewrite(dict: &Dict, text: &str) -> Result<Result<String, AErr>, crate::common::panics::PanicInfo> {
    catch(|| {
        let mut buf = InputBuffer::new();
        buf.reset().push_str(text);
        buf.start_build().map_err(|e| classify_err(&e))?;
        for p in dict.input_text_plugins() {
            p.rewrite(&mut buf).map_err(|e| classify_err(&e))?;
        }
        Ok(buf.current().to_string())
    })
}

/// the same on a buffer that was used before: first for an input whose normalised form is too long (where the table
/// lets U+FDFA expand; the plugin then returns an error half-way), or for a long input that is accepted
fn rewrite_on_used_buffer(dict: &Dict, earlier: &str, text: &str) -> Result<Result<String, AErr>, crate::common::panics::PanicInfo> {
    catch(|| {
        let mut buf = InputBuffer::new();
        buf.reset().push_str(earlier);
        if buf.start_build().is_ok() {
            for p in dict.input_text_plugins() {
                if p.rewrite(&mut buf).is_err() {
                    break;
                }
            }
        }
        buf.reset().push_str(text);
        buf.start_build().map_err(|e| classify_err(&e))?;
        for p in dict.input_text_plugins() {
            p.rewrite(&mut buf).map_err(|e| classify_err(&e))?;
        }
        Ok(buf.current().to_string())
    })
}

fn earlier_inputs() -> &'static [String; 2] {
    static E: std::sync::OnceLock<[String; 2]> = std::sync::OnceLock::new();
    E.get_or_init(|| ["\u{fdfa}".repeat(2000), "Ａｶﾞ㍿ーー漢(カ)".repeat(40)])
}

fn world_with_input(name: &str, rewrite_def: Option<String>, input: Value) -> Arc<World> {
    let mut s = spec_min(name);
    if let Some(r) = rewrite_def {
        s.rewrite_def = r;
    }
    s.plugins["inputTextPlugin"] = input;
    Arc::new(World::build(s).unwrap_or_else(|e| panic!("world {}: {}", name, e)))
}

// ---- (1) every scalar value --------------------------------------------------------------

pub struct ScalarSpace {
    pub label: String,
    /// the same table loaded twice (two hash-map random states)
    pub worlds: [Arc<World>; 2],
    pub table: RewriteTable,
    pub contexts: Vec<(&'static str, &'static str)>,
    pub chunk: u32,
}

impl ScalarSpace {
    fn check_text(&self, o: &mut Outcome, text: &str) {
        let expected = self.table.normalize(text);
        for (wi, w) in self.worlds.iter().enumerate() {
            o.evaluations += 1;
            match rewrite(&w.dict, text) {
                Err(p) => o.fail(Failure::panic(&format!("rewrite {:?}", text), &p)),
                Ok(Err(e)) => o.fail(Failure::new("rewrite-error", format!("{:?}: {:?}", text, e))),
                Ok(Ok(obs)) => {
                    if obs != expected {
                        o.fail(Failure::new(
                            "normalised-text-differs",
                            format!("[{} load {}] input {:?} ({}) normalised to {:?}, reference {:?}", self.label, wi, text, esc(text), obs, expected),
                        ));
                    }
                    if obs != text {
                        o.nontrivial = true;
                    }
                }
            }
        }
    }
}

pub fn esc(s: &str) -> String {
    s.chars().map(|c| format!("U+{:04X}", c as u32)).collect::<Vec<_>>().join(" ")
}

impl Space for ScalarSpace {
    /// u32::MAX = root, otherwise the first scalar of a chunk
    type State = u32;
    fn name(&self) -> String {
        format!("scalars/{}", self.label)
    }
    fn init(&self) -> Vec<u32> {
        vec![u32::MAX]
    }
    fn next(&self, s: &u32, out: &mut Vec<u32>) {
        if *s == u32::MAX {
            let mut c = 0u32;
            while c <= 0x10FFFF {
                out.push(c);
                c += self.chunk;
            }
        }
    }
    fn check(&self, s: &u32) -> Outcome {
        let mut o = Outcome::new();
        if *s == u32::MAX {
            return o;
        }
        for cp in *s..(*s + self.chunk).min(0x110000) {
            let c = match char::from_u32(cp) {
                Some(c) => c,
                None => continue,
            };
            o.count("scalars", 1);
            for (pre, post) in &self.contexts {
                let text = format!("{}{}{}", pre, c, post);
                self.check_text(&mut o, &text);
            }
        }
        o.observe(s);
        o
    }
    fn describe(&self, s: &u32) -> Value {
        json!({"first_scalar": s, "chunk": self.chunk, "contexts": self.contexts})
    }
    fn parse(&self, v: &Value) -> Option<u32> {
        v["first_scalar"].as_u64().map(|x| x as u32)
    }
}

// ---- (2)-(4) strings ------------------------------------------------------------------------

pub struct NormTree {
    pub label: String,
    pub worlds: Vec<Arc<World>>,
    pub alpha: Vec<Sym>,
    pub bounds: TreeBounds,
    pub reference: Box<dyn Fn(&str) -> String + Send + Sync>,
    /// texts of up to this many symbols are also normalised on a buffer that was used for another input before
    pub used_buffer_len: usize,
    /// texts of up to this many symbols are also normalised behind long runs of unrelated characters whose length
    /// (in characters and in bytes) lies around the powers of two from 64 to 1024 (thorough: 16384)
    pub padded_len: usize,
    /// paddings up to 16384 instead of 1024
    pub padded_deep: bool,
}

/// (description, padding) - paddings of 1-, 3-byte and upper-case (general path) characters that are no table key
fn paddings(thorough: bool) -> &'static Vec<(String, String)> {
    static P: std::sync::OnceLock<Vec<(String, String)>> = std::sync::OnceLock::new();
    static Q: std::sync::OnceLock<Vec<(String, String)>> = std::sync::OnceLock::new();
    let bounds: &[usize] = if thorough { &[64, 128, 256, 512, 1024, 2048, 4096, 8192, 16384] } else { &[64, 128, 256, 512, 1024] };
    (if thorough { &P } else { &Q }).get_or_init(|| {
        let mut out: Vec<(String, String)> = Vec::new();
        let mut seen = std::collections::HashSet::new();
        for (unit, w) in [("z", 1usize), ("Z", 1), ("ぬ", 3)] {
            for &b in bounds {
                for d in 0..=4usize {
                    // the text starts 3, 2, 1, 0 characters (bytes) before the boundary, or 1 behind it
                    for n in [b + 1 - d, (b + 1 - d) / w] {
                        // (stay inside the documented input limit of 49149 bytes, with room for the text)
                        if unit.len() * n <= 49000 && seen.insert((unit, n)) {
                            out.push((format!("{} x {}", unit, n), unit.repeat(n)));
                        }
                    }
                }
            }
        }
        out
    })
}

impl Space for NormTree {
    type State = Vec<u8>;
    fn name(&self) -> String {
        format!("strings/{}", self.label)
    }
    fn init(&self) -> Vec<Vec<u8>> {
        vec![vec![]]
    }
    fn next(&self, s: &Vec<u8>, out: &mut Vec<Vec<u8>>) {
        tree_next(&self.alpha, &self.bounds, s, out)
    }
    fn check(&self, s: &Vec<u8>) -> Outcome {
        let mut o = Outcome::new();
        let text = tree_text(&self.alpha, s);
        let expected = (self.reference)(&text);
        for (wi, w) in self.worlds.iter().enumerate() {
            o.evaluations += 1;
            match rewrite(&w.dict, &text) {
                Err(p) => o.fail(Failure::panic(&format!("rewrite {:?}", text), &p)),
                Ok(Err(e)) => o.fail(Failure::new("rewrite-error", format!("{:?}: {:?}", text, e))),
                Ok(Ok(obs)) => {
                    if obs != expected {
                        o.fail(Failure::new(
                            "normalised-text-differs",
                            format!("[{} load {}] input {:?} normalised to {:?}, reference {:?}", self.label, wi, text, obs, expected),
                        ));
                    }
                    if obs != text {
                        o.nontrivial = true;
                    }
                    o.observe(&obs);
                }
            }
            if s.len() <= self.padded_len && !s.is_empty() {
                for (what, pad) in paddings(self.padded_deep).iter() {
                    let long = format!("{}{}", pad, text);
                    let expected_long = (self.reference)(&long);
                    o.evaluations += 1;
                    match rewrite(&w.dict, &long) {
                        Err(p) => o.fail(Failure::panic(&format!("rewrite {:?} behind {}", text, what), &p)),
                        Ok(Err(e)) => o.fail(Failure::new("rewrite-error", format!("{:?} behind {}: {:?}", text, what, e))),
                        Ok(Ok(obs)) => {
                            if obs != expected_long {
                                let tail = |t: &str| t.chars().rev().take(12).collect::<Vec<_>>().into_iter().rev().collect::<String>();
                                o.fail(Failure::new(
                                    "normalised-text-differs",
                                    format!("[{} load {}] input {:?} behind the padding {}: normalised text ends in {:?} ({} bytes), reference ends in {:?} ({} bytes)", self.label, wi, text, what, tail(&obs), obs.len(), tail(&expected_long), expected_long.len()),
                                ));
                            }
                        }
                    }
                }
            }
            if s.len() <= self.used_buffer_len && !s.is_empty() {
                for earlier in earlier_inputs().iter() {
                    o.evaluations += 1;
                    match rewrite_on_used_buffer(&w.dict, earlier, &text) {
                        Err(p) => o.fail(Failure::panic(&format!("rewrite {:?} on a buffer used before", text), &p)),
                        Ok(Err(e)) => o.fail(Failure::new("rewrite-error", format!("{:?} on a buffer used before: {:?}", text, e))),
                        Ok(Ok(obs)) => {
                            if obs != expected {
                                let short: String = obs.chars().take(60).collect();
                                o.fail(Failure::new(
                                    "normalised-text-differs",
                                    format!("[{} load {}] input {:?}, on a buffer that was reset after an input of {} bytes ({:?}...), normalised to {:?} ({} bytes), reference {:?}", self.label, wi, text, earlier.len(), earlier.chars().take(3).collect::<String>(), short, obs.len(), expected),
                                ));
                            }
                        }
                    }
                }
            }
        }
        o
    }
    fn describe(&self, s: &Vec<u8>) -> Value {
        json!({"symbols": s, "text": tree_text(&self.alpha, s)})
    }
    fn parse(&self, v: &Value) -> Option<Vec<u8>> {
        Some(v["symbols"].as_array()?.iter().filter_map(|x| x.as_u64().map(|n| n as u8)).collect())
    }
}

pub fn tables() -> Vec<(&'static str, String)> {
    vec![
        ("hostile-prefix-keys", hostile_rewrite_def()),
        ("shipped", shipped("rewrite.def")),
        // keys that need normalisation themselves, values that are upper case / not NFKC
        ("keys-overlap-normalisation", "Ⅲ\nA\nAb Q\nｶ カカ\nｶﾞ ガ\naa B\naab ㍿\nb b\n".to_string()),
        // no replacements at all
        ("exempt-only", "é\nÉ\nc\n".to_string()),
        // keys whose characters have different UTF-8 widths (narrow first, wide first)
        ("mixed-width-keys", "aあ X\naあ𠮷 YY\nあa Z\n𠮷a W\né𠮷b V\nbé𠮷 U\na𠮷𠮷 T\n".to_string()),
        // rules whose value equals their key: they change nothing themselves, but they keep their span
        // from being lower-cased / normalised and they shadow shorter keys inside it
        ("identity-rules", "É É\nbc bc\nc x\nAb Ab\nｶﾞ ｶﾞ\nﾞ y\n".to_string()),
    ]
}

pub fn main(tier: Tier, replay: Option<String>) -> i32 {
    let mut rep = Report::new("C07", "model_checking", tier);
    rep.rule = "scalar spaces: every Unicode scalar value c in the listed contexts (alone, before an unrelated full-width capital that forces the general path, after 'z'); string spaces: every string within the bound over the trigger alphabet; each through the real plugin loaded twice (two hash-map seeds) and compared with the reference normaliser; non-trivial = the normalised text differs from the input".into();
    rep.assumptions = vec![
        "\"lower-cased\" is applied to characters with the Unicode Uppercase property (char::is_uppercase); NFKC of a single character comes from the same unicode-normalization tables (trusted data, independent control flow)".into(),
    ];
    let mut jobs: Vec<Box<dyn AnyJob>> = Vec::new();
    let di = || json!([default_input_text()]);
    let tabs = tables();
    // (1) scalars
    for (i, (name, def)) in tabs.iter().enumerate() {
        if tier == Tier::Quick && i >= 2 {
            break;
        }
        let w1 = world_with_input(&format!("W-c07-{}-a", name), Some(def.clone()), di());
        let w2 = world_with_input(&format!("W-c07-{}-b", name), Some(def.clone()), di());
        let contexts: Vec<(&'static str, &'static str)> = match tier {
            Tier::Quick => vec![("", ""), ("", "Ａ"), ("z", "")],
            Tier::Thorough => vec![("", ""), ("", "Ａ"), ("z", ""), ("a", "b"), ("", "ab"), ("ｶ", ""), ("", "\u{301}"), ("Ａ", "")],
        };
        let b = json!({"scalars": "all 1,112,064", "contexts": contexts});
        jobs.push(job(
            ScalarSpace { label: name.to_string(), worlds: [w1, w2], table: RewriteTable::parse(def), contexts, chunk: 256 },
            Strategy::Bfs,
            Some(tier.pick(60, 1200)),
            b,
        ));
    }
    // (2) strings under each table
    for (name, def) in tabs.iter() {
        let alpha = if *name == "mixed-width-keys" {
            syms(&["a", "あ", "𠮷"], &["b", "é", "A", "Ａ", "㍿"])
        } else {
            syms(&["a", "b", "c"], &["A", "ｶ", "ﾞ", "Ⅲ", "㍿", "é", "É", "B"])
        };
        let w1 = world_with_input(&format!("W-c07s-{}-a", name), Some(def.clone()), di());
        let w2 = world_with_input(&format!("W-c07s-{}-b", name), Some(def.clone()), di());
        let table = RewriteTable::parse(def);
        let bounds = tier.pick(TreeBounds { full_len: 4, ext_len: 7, max_special: 2 }, TreeBounds { full_len: 6, ext_len: 9, max_special: 2 });
        let b = bounds.to_json();
        jobs.push(job(
            NormTree { label: format!("table-{}", name), worlds: vec![w1, w2], alpha: alpha.clone(), bounds, reference: Box::new(move |s| table.normalize(s)), used_buffer_len: 3, padded_len: 2, padded_deep: tier == Tier::Thorough },
            Strategy::Dfs,
            Some(tier.pick(40, 1200)),
            b,
        ));
    }
    // (3) prolonged sound marks
    {
        let marks = ["ー", "〜", "-"];
        for (label, m, repl) in [("marks3", &marks[..], "ー"), ("marks1-ascii-repl", &marks[2..3], "=="), ("shipped-marks", &["ー", "-", "⁓", "〜", "〰"][..], "ー")] {
            let w = world_with_input(&format!("W-c07-psm-{}", label), None, json!([prolonged(m, repl)]));
            let mc: Vec<char> = m.iter().map(|s| s.chars().next().unwrap()).collect();
            let repl = repl.to_string();
            let bounds = TreeBounds::full(tier.pick(6, 9));
            let b = bounds.to_json();
            jobs.push(job(
                NormTree {
                    label: format!("prolonged-{}", label),
                    worlds: vec![w],
                    alpha: syms(&["ー", "〜", "-", "a", "ア"], &[]),
                    bounds,
                    reference: Box::new(move |s| ref_prolonged(&mc, &repl, s)),
                    used_buffer_len: 3,
                    padded_len: tier.pick(1, 2),
                    padded_deep: tier == Tier::Thorough,
                },
                Strategy::Dfs,
                Some(tier.pick(30, 900)),
                b,
            ));
        }
    }
    // (4) yomigana
    for max in [1usize, 2, 4] {
        for (bl, left, right) in [("ascii+fullwidth", vec!["(", "（"], vec![")", "）"]), ("ascii-only", vec!["("], vec![")"])] {
            let w = world_with_input(&format!("W-c07-yomi-{}-{}", max, bl), None, json!([yomigana(&left, &right, max)]));
            let cats = w.dict.grammar().character_category.clone();
            let cats2 = cats.clone();
            let lc: Vec<char> = left.iter().map(|s| s.chars().next().unwrap()).collect();
            let rc: Vec<char> = right.iter().map(|s| s.chars().next().unwrap()).collect();
            let bounds = tier.pick(TreeBounds { full_len: 4, ext_len: 6, max_special: 1 }, TreeBounds { full_len: 5, ext_len: 7, max_special: 1 });
            let b = json!({"tree": bounds.to_json(), "maxYomiganaLength": max, "brackets": bl});
            jobs.push(job(
                NormTree {
                    label: format!("yomigana-max{}-{}", max, bl),
                    worlds: vec![w],
                    // specials: multi-class kanji / kana, and the code points directly after a
                    // multi-character KANJI / HIRAGANA / KATAKANA range of the shipped char.def
                    alpha: syms(&["漢", "(", ")", "カ", "な", "（", "）"], &["a", "一", "ァ", "ー", "・", "゠", "\u{a000}", "\u{30a0}", "\u{2fd6}"]),
                    bounds,
                    reference: Box::new(move |s| {
                        ref_yomigana(
                            &|c| cats.get_category_types(c).intersects(CategoryType::KANJI),
                            &|c| cats2.get_category_types(c).intersects(CategoryType::HIRAGANA | CategoryType::KATAKANA),
                            &lc,
                            &rc,
                            max,
                            s,
                        )
                    }),
                    used_buffer_len: 3,
                    padded_len: tier.pick(1, 2),
                    padded_deep: tier == Tier::Thorough,
                },
                Strategy::Dfs,
                Some(tier.pick(30, 900)),
                b,
            ));
        }
    }
    // (5) the three plugins in one configuration, in the shipped order and in the reverse one: the result is the
    // composition of the three specified functions (each plugin has to read what the one before it wrote)
    for (label, order) in [("default-prolonged-yomigana", [0usize, 1, 2]), ("prolonged-yomigana-default", [1, 2, 0]), ("yomigana-default-prolonged", [2, 0, 1])] {
        let marks = ["ー", "-", "⁓", "〜", "〰"];
        let plugin = |k: usize| match k {
            0 => default_input_text(),
            1 => prolonged(&marks, "ー"),
            _ => yomigana(&["(", "（"], &[")", "）"], 4),
        };
        let w = world_with_input(&format!("W-c07-pipeline-{}", label), Some(shipped("rewrite.def")), json!([plugin(order[0]), plugin(order[1]), plugin(order[2])]));
        let table = RewriteTable::parse(&shipped("rewrite.def"));
        let cats = w.dict.grammar().character_category.clone();
        let mc: Vec<char> = marks.iter().map(|s| s.chars().next().unwrap()).collect();
        let bounds = tier.pick(TreeBounds { full_len: 4, ext_len: 6, max_special: 2 }, TreeBounds { full_len: 5, ext_len: 8, max_special: 2 });
        let b = json!({"tree": bounds.to_json(), "plugin_order": label});
        jobs.push(job(
            NormTree {
                label: format!("pipeline-{}", label),
                worlds: vec![w],
                // half-width and full-width forms of the marks and brackets become marks / brackets only through the table-driven plugin
                alpha: syms(&["ｰ", "ア", "－"], &["ー", "a", "Ａ", "漢", "(", "カ", ")", "（", "）", "ｶ", "ﾞ", "㍿", "〜"]),
                bounds,
                reference: Box::new(move |s| {
                    let mut t = s.to_string();
                    for &k in order.iter() {
                        t = match k {
                            0 => table.normalize(&t),
                            1 => ref_prolonged(&mc, "ー", &t),
                            _ => ref_yomigana(
                                &|c| cats.get_category_types(c).intersects(CategoryType::KANJI),
                                &|c| cats.get_category_types(c).intersects(CategoryType::HIRAGANA | CategoryType::KATAKANA),
                                &['(', '（'],
                                &[')', '）'],
                                4,
                                &t,
                            ),
                        };
                    }
                    t
                }),
                used_buffer_len: 3,
                padded_len: 2,
                padded_deep: tier == Tier::Thorough,
            },
            Strategy::Dfs,
            Some(tier.pick(40, 900)),
            b,
        ));
    }
    drive(rep, jobs, replay)
}
