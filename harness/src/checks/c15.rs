//! C15 – joined numerals are normalised to their decimal value.
//!
//! Reference, written from the statement, exact decimal arithmetic on digit strings:
//!  (i) a strict recogniser of well-formed numerals with their rendering,
//!  (ii) a total classical evaluator giving the arithmetic value of any digit/unit string, and a
//!       predicate for malformed separators.
//! Oracle: well-formed => exactly one token with the expected rendering; every joined token has a
//! surface without malformed separators and a normalised form equal *as a number* to the
//! classical value of its surface.

use crate::common::evidence::{Report, Tier};
use crate::common::explore::*;
use crate::common::findings::Failure;
use crate::common::panics::catch;
use crate::common::refmodel::*;
use crate::common::worlds::*;
use serde_json::{json, Value};
use std::sync::Arc;
use sudachi::analysis::Mode;

// ---- exact non-negative decimals ---------------------------------------------------------

/// value = digits / 10^frac ; digits most significant first, no sign
#[derive(Clone, Debug)]
pub struct Dec {
    pub digits: Vec<u8>,
    pub frac: usize,
}

impl Dec {
    pub fn zero() -> Dec {
        Dec { digits: vec![], frac: 0 }
    }
    pub fn from_digits(d: &[u8], frac: usize) -> Dec {
        Dec { digits: d.to_vec(), frac }
    }
    /// multiply by 10^k
    pub fn shift(&self, k: usize) -> Dec {
        let mut d = self.clone();
        if d.frac >= k {
            d.frac -= k;
        } else {
            let add = k - d.frac;
            d.frac = 0;
            d.digits.extend(std::iter::repeat(0).take(add));
        }
        d
    }
    fn align(a: &Dec, b: &Dec) -> (Vec<u8>, Vec<u8>, usize) {
        let frac = a.frac.max(b.frac);
        let mut x = a.digits.clone();
        x.extend(std::iter::repeat(0).take(frac - a.frac));
        let mut y = b.digits.clone();
        y.extend(std::iter::repeat(0).take(frac - b.frac));
        let n = x.len().max(y.len());
        let mut xx = vec![0; n - x.len()];
        xx.extend(x);
        let mut yy = vec![0; n - y.len()];
        yy.extend(y);
        (xx, yy, frac)
    }
    pub fn add(&self, o: &Dec) -> Dec {
        let (x, y, frac) = Dec::align(self, o);
        let mut out = vec![0u8; x.len() + 1];
        let mut carry = 0;
        for i in (0..x.len()).rev() {
            let s = x[i] + y[i] + carry;
            out[i + 1] = s % 10;
            carry = s / 10;
        }
        out[0] = carry;
        Dec { digits: out, frac }
    }
    pub fn is_zero(&self) -> bool {
        self.digits.iter().all(|&d| d == 0)
    }
    /// canonical rendering: no leading zeros (one zero kept), trailing fractional zeros dropped
    pub fn canonical(&self) -> String {
        let (int_part, frac_part) = if self.digits.len() >= self.frac {
            let k = self.digits.len() - self.frac;
            (self.digits[..k].to_vec(), self.digits[k..].to_vec())
        } else {
            let mut f = vec![0; self.frac - self.digits.len()];
            f.extend(self.digits.iter());
            (vec![], f)
        };
        let mut i: Vec<u8> = int_part.into_iter().skip_while(|&d| d == 0).collect();
        if i.is_empty() {
            i.push(0);
        }
        let mut f = frac_part;
        while f.last() == Some(&0) {
            f.pop();
        }
        let mut s: String = i.iter().map(|d| (b'0' + d) as char).collect();
        if !f.is_empty() {
            s.push('.');
            s.extend(f.iter().map(|d| (b'0' + d) as char));
        }
        s
    }
    /// parse "123", "00.50", "12." is rejected
    pub fn parse(s: &str) -> Option<Dec> {
        let mut digits = Vec::new();
        let mut frac = 0usize;
        let mut seen_point = false;
        if s.is_empty() {
            return None;
        }
        for c in s.chars() {
            if c == '.' {
                if seen_point {
                    return None;
                }
                seen_point = true;
            } else if let Some(d) = c.to_digit(10) {
                digits.push(d as u8);
                if seen_point {
                    frac += 1;
                }
            } else {
                return None;
            }
        }
        if seen_point && frac == 0 {
            return None;
        }
        Some(Dec { digits, frac })
    }
}

// ---- lexical layer --------------------------------------------------------------------------

#[derive(Clone, Copy, Debug, PartialEq, Eq)]
pub enum NTok {
    Digit(u8),
    Small(usize),
    Large(usize),
    Comma,
    Point,
}

pub fn ntok(c: char) -> Option<NTok> {
    Some(match c {
        '0'..='9' => NTok::Digit(c as u8 - b'0'),
        '〇' => NTok::Digit(0),
        '一' => NTok::Digit(1),
        '二' => NTok::Digit(2),
        '三' => NTok::Digit(3),
        '四' => NTok::Digit(4),
        '五' => NTok::Digit(5),
        '六' => NTok::Digit(6),
        '七' => NTok::Digit(7),
        '八' => NTok::Digit(8),
        '九' => NTok::Digit(9),
        '十' => NTok::Small(1),
        '百' => NTok::Small(2),
        '千' => NTok::Small(3),
        '万' => NTok::Large(4),
        '億' => NTok::Large(8),
        '兆' => NTok::Large(12),
        ',' => NTok::Comma,
        '.' => NTok::Point,
        _ => return None,
    })
}

pub fn lex(s: &str) -> Option<Vec<NTok>> {
    s.chars().map(ntok).collect()
}

/// (ii) classical evaluator: the arithmetic value of a digit/unit string (commas ignored, one
/// decimal point allowed inside a digit run)
pub fn classical_value(toks: &[NTok]) -> Option<Dec> {
    let mut total = Dec::zero();
    let mut sub = Dec::zero();
    let mut tmp: Vec<u8> = Vec::new();
    let mut tmp_frac: Option<usize> = None;
    let take_tmp = |tmp: &mut Vec<u8>, tf: &mut Option<usize>| -> Dec {
        let d = Dec::from_digits(tmp, tf.unwrap_or(0));
        tmp.clear();
        *tf = None;
        d
    };
    for t in toks {
        match t {
            NTok::Digit(d) => {
                tmp.push(*d);
                if let Some(f) = tmp_frac.as_mut() {
                    *f += 1;
                }
            }
            NTok::Point => {
                if tmp_frac.is_some() {
                    return None;
                }
                tmp_frac = Some(0);
            }
            NTok::Comma => {}
            NTok::Small(u) => {
                let had = !tmp.is_empty();
                let mut v = take_tmp(&mut tmp, &mut tmp_frac);
                if !had || v.is_zero() && !had {
                    v = Dec::from_digits(&[1], 0);
                }
                sub = sub.add(&v.shift(*u));
            }
            NTok::Large(u) => {
                let v = take_tmp(&mut tmp, &mut tmp_frac);
                let s = sub.add(&v);
                total = total.add(&s.shift(*u));
                sub = Dec::zero();
            }
        }
    }
    let v = take_tmp(&mut tmp, &mut tmp_frac);
    Some(total.add(&sub).add(&v))
}

/// malformed separators: leading / doubled / dangling point, comma not preceded by 1..3 digits
/// of a first group (or exactly 3 of a later group) or not followed by exactly three digits
pub fn separator_malformed(toks: &[NTok]) -> bool {
    let n = toks.len();
    let is_digit = |i: usize| i < n && matches!(toks[i], NTok::Digit(_));
    for i in 0..n {
        match toks[i] {
            NTok::Point => {
                if i == 0 || !is_digit(i - 1) || !is_digit(i + 1) {
                    return true;
                }
                // a second point in the same digit run
                let mut j = i + 1;
                while is_digit(j) {
                    j += 1;
                }
                if j < n && toks[j] == NTok::Point {
                    return true;
                }
            }
            NTok::Comma => {
                // exactly three digits after
                if !(is_digit(i + 1) && is_digit(i + 2) && is_digit(i + 3)) || is_digit(i + 4) {
                    return true;
                }
                // digits before: run length
                let mut k = 0;
                let mut j = i;
                while j > 0 && is_digit(j - 1) {
                    j -= 1;
                    k += 1;
                }
                if k == 0 || k > 3 {
                    return true;
                }
                let after_comma = j > 0 && toks[j - 1] == NTok::Comma;
                if after_comma && k != 3 {
                    return true;
                }
                // a fraction cannot be grouped
                if j > 0 && toks[j - 1] == NTok::Point {
                    return true;
                }
            }
            _ => {}
        }
    }
    false
}

fn digits_string(d: &[u8]) -> String {
    d.iter().map(|x| (b'0' + x) as char).collect()
}

/// (i) strict recogniser: Some(rendering) for the well-formed class
pub fn well_formed(toks: &[NTok]) -> Option<String> {
    if toks.is_empty() {
        return None;
    }
    let has_unit = toks.iter().any(|t| matches!(t, NTok::Small(_) | NTok::Large(_)));
    if !has_unit {
        // plain or comma-grouped digits with optional fraction
        let point = toks.iter().position(|t| *t == NTok::Point);
        let (int_part, frac_part) = match point {
            Some(p) => (&toks[..p], Some(&toks[p + 1..])),
            None => (toks, None),
        };
        let mut int_digits: Vec<u8> = Vec::new();
        if int_part.contains(&NTok::Comma) {
            let groups: Vec<&[NTok]> = int_part.split(|t| *t == NTok::Comma).collect();
            for (gi, g) in groups.iter().enumerate() {
                if !g.iter().all(|t| matches!(t, NTok::Digit(_))) {
                    return None;
                }
                if gi == 0 {
                    if g.is_empty() || g.len() > 3 || g.iter().all(|t| *t == NTok::Digit(0)) {
                        return None;
                    }
                } else if g.len() != 3 {
                    return None;
                }
                for t in g.iter() {
                    if let NTok::Digit(d) = t {
                        int_digits.push(*d);
                    }
                }
            }
        } else {
            if int_part.is_empty() {
                return None;
            }
            for t in int_part {
                match t {
                    NTok::Digit(d) => int_digits.push(*d),
                    _ => return None,
                }
            }
        }
        let mut s = digits_string(&int_digits); // leading zeros kept
        if let Some(f) = frac_part {
            if f.is_empty() {
                return None;
            }
            let mut fd = Vec::new();
            for t in f {
                match t {
                    NTok::Digit(d) => fd.push(*d),
                    _ => return None,
                }
            }
            while fd.last() == Some(&0) {
                fd.pop();
            }
            if !fd.is_empty() {
                s.push('.');
                s.push_str(&digits_string(&fd));
            }
        }
        return Some(s);
    }
    // unit numerals: no separators
    if toks.iter().any(|t| matches!(t, NTok::Comma | NTok::Point)) {
        return None;
    }
    // split at large units, strictly decreasing
    let mut groups: Vec<(Vec<NTok>, usize)> = Vec::new();
    let mut cur: Vec<NTok> = Vec::new();
    let mut last_large = usize::MAX;
    for t in toks {
        match t {
            NTok::Large(u) => {
                if *u >= last_large || cur.is_empty() {
                    return None;
                }
                last_large = *u;
                groups.push((std::mem::take(&mut cur), *u));
            }
            other => cur.push(*other),
        }
    }
    if !cur.is_empty() {
        groups.push((cur, 0));
    }
    let mut total = Dec::zero();
    let n_groups = groups.len();
    for (g, scale) in groups {
        let v = group_value(&g, n_groups == 1 && scale > 0)?;
        if v.is_zero() {
            return None;
        }
        total = total.add(&v.shift(scale));
    }
    Some(total.canonical())
}

/// value of one group below a large unit: `[c]千[c]百[c]十[d]` or a plain coefficient
fn group_value(g: &[NTok], allow_long_plain: bool) -> Option<Dec> {
    if g.iter().all(|t| matches!(t, NTok::Digit(_))) {
        // plain coefficient: 1-4 digits, no leading zero (any length if it is the only group)
        let d: Vec<u8> = g.iter().map(|t| if let NTok::Digit(d) = t { *d } else { 0 }).collect();
        if d.is_empty() || d[0] == 0 || (d.len() > 4 && !allow_long_plain) {
            return None;
        }
        return Some(Dec::from_digits(&d, 0));
    }
    let mut v = Dec::zero();
    let mut last_unit = 4usize;
    let mut i = 0;
    while i < g.len() {
        match g[i] {
            NTok::Digit(d) => {
                if d == 0 {
                    return None;
                }
                if i + 1 < g.len() {
                    if let NTok::Small(u) = g[i + 1] {
                        if u >= last_unit {
                            return None;
                        }
                        last_unit = u;
                        v = v.add(&Dec::from_digits(&[d], 0).shift(u));
                        i += 2;
                        continue;
                    }
                    return None; // two digits in a row inside a unit group
                }
                // final units digit
                if last_unit == 0 {
                    return None;
                }
                v = v.add(&Dec::from_digits(&[d], 0));
                last_unit = 0;
                i += 1;
            }
            NTok::Small(u) => {
                if u >= last_unit {
                    return None;
                }
                last_unit = u;
                v = v.add(&Dec::from_digits(&[1], 0).shift(u));
                i += 1;
            }
            _ => return None,
        }
    }
    Some(v)
}

// ---- the check ----------------------------------------------------------------------------------

pub struct NumSpace {
    pub label: String,
    pub with: Arc<World>,
    pub without: Arc<World>,
    pub alpha: Vec<Sym>,
    pub bounds: TreeBounds,
}

pub fn check_numeral_text(with: &Dict, without: &Dict, text: &str, standalone: Option<&str>, o: &mut Outcome) {
    o.evaluations += 2;
    let r = catch(|| (analyze(with, Mode::C, text), analyze(without, Mode::C, text)));
    let (tw, to) = match r {
        Err(p) => {
            o.fail(Failure::panic(&format!("{:?}", text), &p));
            return;
        }
        Ok((Ok(a), Ok(b))) => (a, b),
        Ok((a, b)) => {
            o.fail(Failure::new("analysis-error", format!("{:?}: {:?} / {:?}", text, a.err(), b.err())));
            return;
        }
    };
    // a numeral joined from several tokens is one token in every split mode (a joined token is no dictionary word and
    // has no units of its own), whatever units the words it was joined from declare
    {
        let multi: Vec<&Tok> = tw.iter().filter(|t| to.iter().filter(|p| p.begin >= t.begin && p.end <= t.end && p.begin != p.end).count() > 1).collect();
        if !multi.is_empty() {
            for (mode, mname) in [(Mode::A, "A"), (Mode::B, "B")] {
                o.evaluations += 1;
                match catch(|| analyze(with, mode, text)) {
                    Err(p) => o.fail(Failure::panic(&format!("{:?} mode {}", text, mname), &p)),
                    Ok(Err(e)) => o.fail(Failure::new("analysis-error", format!("{:?} mode {}: {:?}", text, mname, e))),
                    Ok(Ok(ta)) => {
                        for t in &multi {
                            if !ta.iter().any(|x| x.begin == t.begin && x.end == t.end && x.normalized == t.normalized) {
                                o.fail(Failure::new(
                                    "joined-numeral-split-again",
                                    format!("{:?}: the numeral {:?} is one token normalised to {:?} in mode C, but mode {} reports {:?}", text, t.surface, t.normalized, mname, ta.iter().filter(|x| x.begin >= t.begin && x.end <= t.end).map(|x| (x.surface.clone(), x.normalized.clone())).collect::<Vec<_>>()),
                                ));
                            }
                        }
                    }
                }
            }
        }
    }
    // joined tokens
    for t in &tw {
        let inner: Vec<&Tok> = to.iter().filter(|p| p.begin >= t.begin && p.end <= t.end && !(p.begin == p.end)).collect();
        let same = to.iter().find(|p| p.begin == t.begin && p.end == t.end);
        let joined = inner.len() > 1 || same.map(|p| p.normalized != t.normalized).unwrap_or(false);
        if !joined {
            continue;
        }
        o.nontrivial = true;
        o.count("joined_tokens", 1);
        let toks = match lex(&t.surface) {
            Some(x) => x,
            None => {
                o.fail(Failure::new("joined-non-numeral", format!("{:?}: joined token {:?} contains non-numeral characters", text, t.surface)));
                continue;
            }
        };
        if separator_malformed(&toks) {
            o.fail(Failure::new("joined-across-malformed-separator", format!("{:?}: token {:?} (normalised {:?}) was joined although its separators are malformed", text, t.surface, t.normalized)));
            continue;
        }
        let value = classical_value(&toks);
        let got = Dec::parse(&t.normalized);
        match (value, got) {
            (Some(v), Some(g)) => {
                if v.canonical() != g.canonical() {
                    o.fail(Failure::new("joined-wrong-value", format!("{:?}: token {:?} is normalised to {:?} = {}, its value is {}", text, t.surface, t.normalized, g.canonical(), v.canonical())));
                }
            }
            (v, g) => o.fail(Failure::new("joined-wrong-value", format!("{:?}: token {:?} normalised {:?}: value {:?}, parsed {:?}", text, t.surface, t.normalized, v.map(|x| x.canonical()), g.map(|x| x.canonical())))),
        }
    }
    // well-formed numerals are joined into one token with the expected rendering: every maximal
    // run of numeral characters of the text is examined
    let _ = standalone;
    // (numeral characters inside a longer dictionary word that is no numeral are shadowed by it:
    // a plugin-free token that also contains other characters)
    let shadowed = |b: usize| -> bool { to.iter().any(|p| p.begin <= b && b < p.end && p.surface.chars().any(|c| ntok(c).is_none())) };
    let mut runs: Vec<(usize, usize)> = Vec::new();
    let mut cur: Option<usize> = None;
    for (b, c) in text.char_indices() {
        if ntok(c).is_some() && !shadowed(b) {
            if cur.is_none() {
                cur = Some(b);
            }
        } else if let Some(st) = cur.take() {
            runs.push((st, b));
        }
    }
    if let Some(st) = cur {
        runs.push((st, text.len()));
    }
    for (start, end) in runs {
        let num = &text[start..end];
        if let Some(toks) = lex(num) {
            if let Some(expected) = well_formed(&toks) {
                o.count("well_formed", 1);
                let covering: Vec<&Tok> = tw.iter().filter(|t| t.begin >= start && t.end <= end && t.begin != t.end).collect();
                if covering.len() != 1 || covering[0].begin != start || covering[0].end != end {
                    o.fail(Failure::new("well-formed-not-joined", format!("{:?}: the well-formed numeral {:?} (= {}) is reported as {:?}", text, num, expected, covering.iter().map(|t| t.surface.clone()).collect::<Vec<_>>())));
                } else if covering[0].normalized != expected {
                    o.fail(Failure::new("well-formed-wrong-rendering", format!("{:?}: the numeral {:?} is normalised to {:?}, expected {:?}", text, num, covering[0].normalized, expected)));
                }
            }
        }
    }
    o.observe(&tw.iter().map(|t| (t.begin, t.end, t.normalized.clone())).collect::<Vec<_>>());
}

impl Space for NumSpace {
    type State = Vec<u8>;
    fn name(&self) -> String {
        self.label.clone()
    }
    fn init(&self) -> Vec<Vec<u8>> {
        vec![vec![]]
    }
    fn next(&self, s: &Vec<u8>, out: &mut Vec<Vec<u8>>) {
        tree_next(&self.alpha, &self.bounds, s, out)
    }
    fn check(&self, s: &Vec<u8>) -> Outcome {
        let mut o = Outcome::new();
        let num = tree_text(&self.alpha, s);
        if num.is_empty() {
            return o;
        }
        check_numeral_text(&self.with.dict, &self.without.dict, &num, Some(&num), &mut o);
        let embedded = format!("x{}x", num);
        check_numeral_text(&self.with.dict, &self.without.dict, &embedded, Some(&num), &mut o);
        o
    }
    fn describe(&self, s: &Vec<u8>) -> Value {
        json!({"symbols": s, "text": tree_text(&self.alpha, s)})
    }
    fn parse(&self, v: &Value) -> Option<Vec<u8>> {
        Some(v["symbols"].as_array()?.iter().filter_map(|x| x.as_u64().map(|n| n as u8)).collect())
    }
}

pub fn numeral_spec(name: &str, plugin: bool) -> WorldSpec {
    let mut s = spec_min(name);
    s.system.push(Row::new("x", 1, 1, 3000, P_NOUN));
    // a word that begins and ends with a digit but is no numeral
    s.system.push(Row::new("1x1", 1, 1, -9000, P_NOUN));
    // numerals that are dictionary words of several characters, declaring units of their own
    s.system.push(Row::new("三十", 9, 9, -3000, P_NUM).splits("C", "三,名詞,数詞,*,*,*,*,三/十,名詞,数詞,*,*,*,*,十", "三,名詞,数詞,*,*,*,*,三/十,名詞,数詞,*,*,*,*,十"));
    s.system.push(Row::new("10", 9, 9, -3000, P_NUM).splits("C", "1,名詞,数詞,*,*,*,*,1/0,名詞,数詞,*,*,*,*,0", "*"));
    if plugin {
        s.plugins["pathRewritePlugin"] = json!([join_numeric(true)]);
    }
    s
}

/// all well-formed renderings of a value given as decimal digits
fn renderings(d: &[u8]) -> Vec<String> {
    let mut v = Vec::new();
    let plain = digits_string(d);
    v.push(plain.clone());
    let kanji: String = d.iter().map(|x| "〇一二三四五六七八九".chars().nth(*x as usize).unwrap()).collect();
    v.push(kanji);
    // comma grouped
    if d.len() > 3 {
        let mut s = String::new();
        for (i, c) in plain.chars().enumerate() {
            if i > 0 && (plain.len() - i) % 3 == 0 {
                s.push(',');
            }
            s.push(c);
        }
        v.push(s.clone());
        v.push(format!("{}.50", s));
    }
    v.push(format!("{}.0", plain));
    v.push(format!("{}.25", plain));
    // unit notation below 10^16
    if d.len() <= 16 {
        let mut padded = vec![0u8; 16 - d.len()];
        padded.extend_from_slice(d);
        for style in 0..2 {
            let mut s = String::new();
            for (gi, large) in ["兆", "億", "万", ""].iter().enumerate() {
                let g = &padded[gi * 4..gi * 4 + 4];
                if g.iter().all(|&x| x == 0) {
                    continue;
                }
                for (k, unit) in ["千", "百", "十", ""].iter().enumerate() {
                    let x = g[k];
                    if x == 0 {
                        continue;
                    }
                    let dch = if style == 0 { "〇一二三四五六七八九".chars().nth(x as usize).unwrap() } else { (b'0' + x) as char };
                    if x != 1 || unit.is_empty() || style == 1 {
                        s.push(dch);
                    }
                    s.push_str(unit);
                }
                s.push_str(large);
            }
            if !s.is_empty() {
                v.push(s);
            }
        }
        // plain coefficient before the large units
        let mut s = String::new();
        for (gi, large) in ["兆", "億", "万", ""].iter().enumerate() {
            let g = &padded[gi * 4..gi * 4 + 4];
            if g.iter().all(|&x| x == 0) {
                continue;
            }
            let gs: Vec<u8> = g.iter().cloned().skip_while(|&x| x == 0).collect();
            s.push_str(&digits_string(&gs));
            s.push_str(large);
        }
        if !s.is_empty() {
            v.push(s);
        }
    }
    v
}

pub fn main(tier: Tier, replay: Option<String>) -> i32 {
    let mut rep = Report::new("C15", "model_checking", tier);
    rep.rule = "states = every string within the bound over the numeral alphabet {0 1 2 5 〇 一 三 十 百 千 万 億 兆 , .} plus a non-numeral separator x (so that several numerals occur in one text), each analysed alone and embedded as x·s·x, with and without the numeral plugin; plus every well-formed rendering (Arabic, kanji digits, comma groups, fractions, unit notation, coefficient notation) of the value grid d·10^k + e·10^j, k <= 40; non-trivial = a joined token occurred".into();
    rep.assumptions = vec![
        "a token counts as joined when it covers more than one token of the plugin-free analysis or its normalised form was rewritten".into(),
        "units out of order may stay in pieces or be joined into their arithmetic sum; only a different value, or a join across a malformed separator, is a violation".into(),
    ];
    let with = Arc::new(World::build(numeral_spec("W-num", true)).expect("W-num"));
    let without = Arc::new(World::build(numeral_spec("W-num-plain", false)).expect("W-num-plain"));
    let mut jobs: Vec<Box<dyn AnyJob>> = Vec::new();
    let alpha = syms(&["1", "0", "5"], &["2", "〇", "一", "三", "十", "百", "千", "万", "億", "兆", ",", ".", "x", ",000", "1.5"]);
    let bounds = tier.pick(TreeBounds { full_len: 4, ext_len: 7, max_special: 2 }, TreeBounds { full_len: 5, ext_len: 9, max_special: 2 });
    let b = bounds.to_json();
    jobs.push(job(NumSpace { label: "W-num/numeral-strings".into(), with: with.clone(), without: without.clone(), alpha: alpha.clone(), bounds }, Strategy::Dfs, Some(tier.pick(50, 3000)), b));
    // the optional setting left out: normalisation is on by default
    {
        let mut spec = numeral_spec("W-num-default-setting", false);
        spec.plugins["pathRewritePlugin"] = json!([{"class": "com.worksap.nlp.sudachi.JoinNumericPlugin"}]);
        let w = Arc::new(World::build(spec).expect("W-num-default-setting"));
        let bounds = tier.pick(TreeBounds { full_len: 3, ext_len: 5, max_special: 2 }, TreeBounds { full_len: 4, ext_len: 7, max_special: 2 });
        let b = bounds.to_json();
        jobs.push(job(NumSpace { label: "W-num-default-setting/numeral-strings".into(), with: w, without: without.clone(), alpha: alpha.clone(), bounds }, Strategy::Dfs, Some(tier.pick(50, 1500)), b));
    }
    // runs of Arabic digits arrive as ONE node: an unknown-word provider groups them (cheaply) and
    // tags them as numerals, as the shipped configuration does
    {
        let grouped = |name: &str, plugin: bool| -> Arc<World> {
            let mut spec = numeral_spec(name, plugin);
            spec.unk_def = spec.unk_def.replace("NUMERIC,3,3,12450,", "NUMERIC,3,3,-3000,");
            spec.plugins["oovProviderPlugin"] = json!([mecab_oov(false), simple_oov(5, 5, 3857, P_SYM, false)]);
            Arc::new(World::build(spec).unwrap_or_else(|e| panic!("{}: {}", name, e)))
        };
        let (w, wo) = (grouped("W-num-grouped-digits", true), grouped("W-num-grouped-digits-plain", false));
        let bounds = tier.pick(TreeBounds { full_len: 3, ext_len: 6, max_special: 2 }, TreeBounds { full_len: 4, ext_len: 8, max_special: 2 });
        let b = bounds.to_json();
        jobs.push(job(NumSpace { label: "W-num-grouped-digits/numeral-strings".into(), with: w, without: wo, alpha: alpha.clone(), bounds }, Strategy::Dfs, Some(tier.pick(50, 1500)), b));
    }
    // value grid
    let mut cases: Vec<String> = Vec::new();
    let kmax = tier.pick(24, 40);
    for k in 0..=kmax {
        for d in [1u8, 2, 9] {
            for (j, e) in [(0usize, 0u8), (0, 5), (1, 3), (3, 7), (4, 1), (7, 2), (8, 8)] {
                if j >= k && e != 0 {
                    continue;
                }
                let mut digits = vec![0u8; k + 1];
                digits[0] = d;
                if e != 0 {
                    let idx = k - j;
                    digits[idx] = e;
                }
                cases.extend(renderings(&digits));
            }
        }
    }
    cases.sort();
    cases.dedup();
    let (w2, wo2) = (with.clone(), without.clone());
    let n = cases.len();
    jobs.push(job(
        CaseSpace {
            label: "W-num/value-grid".into(),
            cases,
            check_fn: Box::new(move |s: &String| {
                let mut o = Outcome::new();
                check_numeral_text(&w2.dict, &wo2.dict, s, Some(s), &mut o);
                let emb = format!("x{}x", s);
                check_numeral_text(&w2.dict, &wo2.dict, &emb, Some(s), &mut o);
                // the generator must only emit well-formed strings (sanity of the reference itself)
                if lex(s).and_then(|t| well_formed(&t)).is_none() {
                    o.fail(Failure::new("reference-inconsistent", format!("generated rendering {:?} is not recognised as well-formed", s)));
                }
                o
            }),
            describe_fn: Box::new(|s: &String| json!(s)),
        },
        Strategy::Bfs,
        Some(tier.pick(60, 600)),
        json!({"renderings": n, "max_power_of_ten": kmax}),
    ));
    drive(rep, jobs, replay)
}
