//! C14 – path-rewrite plugins only merge adjacent tokens and preserve the text (differential:
//! the same world with and without `pathRewritePlugin`).

use crate::common::evidence::{Report, Tier};
use crate::common::explore::*;
use crate::common::findings::Failure;
use crate::common::panics::catch;
use crate::common::refmodel::*;
use crate::common::worlds::*;
use serde_json::{json, Value};
use std::sync::Arc;
use sudachi::analysis::stateless_tokenizer::DictionaryAccess;
use sudachi::analysis::Mode;
use sudachi::dic::category_type::CategoryType;

pub struct RewriteVariant {
    pub world: Arc<World>,
    pub normalize: bool,
    pub min_len: usize,
    /// the part of speech configured for joined katakana tokens
    pub kata_pos: [&'static str; 6],
}

/// a conjugating part of speech that has an earlier sibling in the dictionary differing only after
/// the `*` components (the configured part of speech must be matched in all six components)
pub const P_VERB_B: [&str; 6] = ["動詞", "一般", "*", "*", "五段-カ行", "連用形-促音便"];

pub struct MergeSpace {
    pub label: String,
    pub plain: Arc<World>,
    pub variants: Vec<RewriteVariant>,
    pub alpha: Vec<Sym>,
    pub bounds: TreeBounds,
    pub modes: Vec<Mode>,
}

fn pos_strs(p: [&str; 6]) -> Vec<String> {
    p.iter().map(|s| s.to_string()).collect()
}

/// token fields that must be identical for a token that is not part of a merge
fn ident(t: &Tok) -> (usize, usize, u32, String, Vec<String>, String, String, String, i32, Vec<u32>, String) {
    (t.begin, t.end, t.word_id, t.surface.clone(), t.pos.clone(), t.normalized.clone(), t.dictionary.clone(), t.reading.clone(), t.total_cost, t.synonyms.clone(), t.wi_surface.clone())
}

impl MergeSpace {
    fn compare(&self, v: &RewriteVariant, mode: Mode, text: &str, with: &[Tok], without: &[Tok], o: &mut Outcome) {
        let ctx = format!("[{} normalize={} minLength={} mode {}] {:?}", v.world.name(), v.normalize, v.min_len, mode_name(mode), text);
        let cats = &v.world.dict.grammar().character_category;
        let bw = boundaries(with);
        let bo = boundaries(without);
        for b in &bw {
            if !bo.contains(b) {
                o.fail(Failure::new("new-boundary", format!("{}: boundary {} exists only with the plugins ({:?} vs {:?})", ctx, b, bw, bo)));
            }
        }
        let mut j = 0usize;
        for (i, t) in with.iter().enumerate() {
            // consume plugin-free tokens whose dictionary-side surfaces concatenate to this one's
            let start = j;
            let mut acc = String::new();
            while j < without.len() && acc.len() < t.wi_surface.len() {
                acc.push_str(&without[j].wi_surface);
                j += 1;
            }
            if acc != t.wi_surface || start == j {
                o.fail(Failure::new(
                    "cannot-align",
                    format!("{}: token {} has dictionary-side surface {:?}, which is not the concatenation of the next plugin-free tokens {:?}", ctx, i, t.wi_surface, without[start..j.min(without.len())].iter().map(|x| x.wi_surface.clone()).collect::<Vec<_>>()),
                ));
                return;
            }
            let parts = &without[start..j];
            if parts.len() == 1 {
                let p = &parts[0];
                if ident(t) != ident(p) {
                    // allowed: a single numeral whose normalised form alone was rewritten
                    let mut t2 = t.clone();
                    t2.normalized = p.normalized.clone();
                    t2.word_id = p.word_id;
                    t2.dictionary = p.dictionary.clone();
                    t2.reading = p.reading.clone();
                    t2.synonyms = p.synonyms.clone();
                    let numeral = p.pos == pos_strs(P_NUM) && v.normalize && t.pos == p.pos;
                    if !(numeral && ident(&t2) == ident(p) && t.normalized != p.normalized) {
                        o.fail(Failure::new("unmerged-token-changed", format!("{}: token {} {:?} is not part of a merge but differs: {:?} vs {:?}", ctx, i, t.surface, ident(t), ident(p))));
                    } else {
                        o.count("single_numeral_renormalised", 1);
                        o.nontrivial = true;
                    }
                }
            } else {
                o.nontrivial = true;
                o.count("merges", 1);
                let first = &parts[0];
                let last = &parts[parts.len() - 1];
                if t.begin != first.begin || t.end != last.end {
                    o.fail(Failure::new("merged-range", format!("{}: merged token {} covers {}..{}, its parts cover {}..{}", ctx, i, t.begin, t.end, first.begin, last.end)));
                }
                if t.begin_c != first.begin_c || t.end_c != last.end_c {
                    o.fail(Failure::new("merged-range", format!("{}: merged token {} covers code points {}..{}, its parts {}..{}", ctx, i, t.begin_c, t.end_c, first.begin_c, last.end_c)));
                }
                // (forms other than the dictionary-side surface, and the cost, of a merged token are
                // not part of the statement: differences are counted, not judged)
                let all_katakana = parts.iter().all(|p| !p.wi_surface.is_empty() && p.wi_surface.chars().all(|c| cats.get_category_types(c).contains(CategoryType::KATAKANA)));
                let expect_pos = if all_katakana { pos_strs(v.kata_pos) } else { pos_strs(P_NUM) };
                if t.pos != expect_pos {
                    o.fail(Failure::new("merged-pos", format!("{}: merged token {} {:?} has part of speech {:?}, the plugin prescribes {:?}", ctx, i, t.surface, t.pos, expect_pos)));
                }
                if all_katakana {
                    if t.normalized != t.wi_surface || t.dictionary != t.wi_surface {
                        o.count("unspecified_merged_forms_differ_from_concatenation", 1);
                    }
                } else if !v.normalize {
                    let exp: String = parts.iter().map(|p| p.normalized.clone()).collect();
                    if t.normalized != exp {
                        o.count("unspecified_merged_forms_differ_from_concatenation", 1);
                    }
                }
                if !all_katakana {
                    let exp_r: String = parts.iter().map(|p| p.reading.clone()).collect();
                    let exp_d: String = parts.iter().map(|p| p.dictionary.clone()).collect();
                    if t.reading != exp_r || t.dictionary != exp_d {
                        o.count("unspecified_merged_forms_differ_from_concatenation", 1);
                    }
                }
                if t.total_cost != last.total_cost {
                    o.count("unspecified_merged_cost_differs_from_last_part", 1);
                }
            }
        }
        if j != without.len() {
            o.fail(Failure::new("token-dropped", format!("{}: {} plugin-free tokens are not covered by the result with plugins", ctx, without.len() - j)));
        }
    }
}

impl Space for MergeSpace {
    type State = Vec<u8>;
    fn name(&self) -> String {
        self.label.clone()
    }
    fn init(&self) -> Vec<Vec<u8>> {
        vec![vec![]]
    }
    fn next(&self, s: &Vec<u8>, out: &mut Vec<Vec<u8>>) {
        tree_next(&self.alpha, &self.bounds, s, out)
    }
    fn check(&self, s: &Vec<u8>) -> Outcome {
        let mut o = Outcome::new();
        let text = tree_text(&self.alpha, s);
        for &mode in &self.modes {
            o.evaluations += 1;
            let base = match catch(|| analyze(&self.plain.dict, mode, &text)) {
                Err(p) => {
                    o.fail(Failure::panic(&format!("plain {:?}", text), &p));
                    return o;
                }
                Ok(Err(_)) => {
                    o.count("rejected", 1);
                    continue;
                }
                Ok(Ok(t)) => t,
            };
            for v in &self.variants {
                o.evaluations += 1;
                match catch(|| analyze(&v.world.dict, mode, &text)) {
                    Err(p) => o.fail(Failure::panic(&format!("{} {:?}", v.world.name(), text), &p)),
                    Ok(Err(e)) => o.fail(Failure::new("error-only-with-plugins", format!("[{}] {:?}: {:?}", v.world.name(), text, e))),
                    Ok(Ok(t)) => {
                        self.compare(v, mode, &text, &t, &base, &mut o);
                        o.observe(&boundaries(&t));
                    }
                }
            }
        }
        o
    }
    fn describe(&self, s: &Vec<u8>) -> Value {
        json!({"symbols": s, "text": tree_text(&self.alpha, s)})
    }
    fn parse(&self, v: &Value) -> Option<Vec<u8>> {
        Some(v["symbols"].as_array()?.iter().filter_map(|x| x.as_u64().map(|n| n as u8)).collect())
    }
}

pub fn merge_spec(name: &str, rewrite: Option<(bool, usize)>) -> WorldSpec {
    merge_spec_pos(name, rewrite, P_KATA)
}

pub fn merge_spec_pos(name: &str, rewrite: Option<(bool, usize)>, kata_pos: [&'static str; 6]) -> WorldSpec {
    let mut s = spec_full(name, false);
    s.system.push(Row::new("カタカ", 7, 7, 4000, P_NOUN));
    s.system.push(Row::new("x", 1, 1, 3000, P_NOUN));
    s.system.push(Row::new("二千", 9, 9, 2000, P_NUM).norm("二千"));
    s.system.push(Row::new("ナナ", 9, 9, 3000, P_NUM).norm("7"));
    s.system.push(Row::new("カ", 7, 7, 8000, P_KATA));
    // a katakana word whose headword is longer than its key (merged ranges must come from the parts)
    s.system.push(Row::new("タタ", 7, 7, 3000, P_NOUN).headword("タタタ"));
    s.system.push(Row::new("アア", 7, 7, 3000, P_NOUN).headword("ア"));
    // a numeral unit that is not tagged as a numeral: a merge that ends with it keeps the numeral POS
    for r in s.system.iter_mut() {
        if r.surface == "万" {
            r.pos = pos_of(P_NOUN);
        }
    }
    // a numeral written full-width whose normalised form is what the plugin would produce anyway:
    // standing alone it is not part of any merge
    s.system.push(Row::new("3", 9, 9, 2400, P_NUM).headword("３").norm("3"));
    // a numeral of two digits that declares its digits as units: in modes A / B it is split when it stands alone,
    // a numeral joined from it and further digits is one token in every mode
    let i0 = s.system.iter().position(|r| r.surface == "0").expect("0");
    let i1 = s.system.iter().position(|r| r.surface == "1").expect("1");
    s.system.push(Row::new("10", 9, 9, 1500, P_NUM).splits("C", &format!("{}/{}", i1, i0), &format!("{}/{}", i1, i0)));
    // (the sibling of the conjugating part of speech P_VERB_B: `行く` carries P_VERB and comes first)
    s.system.push(Row::new("行っ", 1, 1, 5122, P_VERB_B));
    // words of a user dictionary take part in merges and are left alone like any other
    s.users.push(vec![Row::new("タカ", 7, 7, 2500, P_NOUN), Row::new("12", 9, 9, 2000, P_NUM), Row::new("ナ", 7, 7, 2500, P_KATA).reading("ナ2")]);
    if let Some((norm, min)) = rewrite {
        s.plugins["pathRewritePlugin"] = json!([join_numeric(norm), join_katakana(min, kata_pos)]);
    }
    s
}

pub fn main(tier: Tier, replay: Option<String>) -> i32 {
    let mut rep = Report::new("C14", "model_checking", tier);
    rep.rule = "states = all strings within the bound over the numeral / katakana alphabet; each state is tokenized with the plugin-free world and with six path-rewrite settings (enableNormalize x minLength 1..3), in modes C and A; token boundaries with plugins must be a subset, merged tokens must cover exactly the union of their parts with concatenated dictionary-side surface and the prescribed part of speech, other tokens must be identical; non-trivial = a merge or a single-numeral renormalisation happened".into();
    rep.assumptions = vec!["tokens are aligned through their dictionary-side surface (WordInfo.surface), which both concat functions are specified to concatenate; a failure to align is itself reported".into()];
    let plain = Arc::new(World::build(merge_spec("W-merge-plain", None)).expect("plain"));
    let mut variants = Vec::new();
    for norm in [true, false] {
        for min in [1usize, 2, 3] {
            let w = Arc::new(World::build(merge_spec(&format!("W-merge-n{}-m{}", norm as u8, min), Some((norm, min)))).expect("variant"));
            variants.push(RewriteVariant { world: w, normalize: norm, min_len: min, kata_pos: P_KATA });
        }
    }
    {
        let w = Arc::new(World::build(merge_spec_pos("W-merge-n1-m2-verb-pos", Some((true, 2)), P_VERB_B)).expect("variant"));
        variants.push(RewriteVariant { world: w, normalize: true, min_len: 2, kata_pos: P_VERB_B });
    }
    let alpha = syms(&["1", "ア", "x"], &["2", "〇", "一", "十", ",", ".", "ァ", "カ", "タ", "東", "万", "ー", "ナ", "千", "二", "0", "3"]);
    let bounds = tier.pick(TreeBounds { full_len: 3, ext_len: 6, max_special: 2 }, TreeBounds { full_len: 4, ext_len: 7, max_special: 2 });
    let b = bounds.to_json();
    let jobs = vec![job(
        MergeSpace { label: "W-merge/texts".into(), plain, variants, alpha, bounds, modes: vec![Mode::C, Mode::A] },
        Strategy::Dfs,
        Some(tier.pick(50, 3000)),
        b,
    )];
    drive(rep, jobs, replay)
}
