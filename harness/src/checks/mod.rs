pub mod inv;
pub mod c01;
pub mod setup;
