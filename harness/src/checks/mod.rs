pub mod inv;
pub mod c01;
pub mod setup;
pub mod c08;
pub mod c07;
pub mod c03;
pub mod c13;
pub mod c02;
