//! C03 – tokenization is total: never panics (debug assertions and overflow checks are on in the
//! `verif` profile), succeeds within the documented limits, reports InputTooLong beyond them.

use crate::checks::c01::{self, TextTree};
use crate::checks::inv::{codepoint_failures, partition_failures};
use crate::common::evidence::{Report, Tier};
use crate::common::explore::*;
use crate::common::findings::Failure;
use crate::common::panics::catch;
use crate::common::refmodel::*;
use crate::common::worlds::*;
use serde_json::{json, Value};
use std::sync::Arc;
use sudachi::analysis::Mode;
use sudachi::prelude::MorphemeList;

pub const MAX_ORIG: usize = 49149;
pub const MAX_NORM: usize = 65535;

/// analyse + call every accessor + split every morpheme; anything but a panic-free Ok is a failure
/// when `must_succeed`
pub fn total_check(o: &mut Outcome, dict: &Dict, wname: &str, mode: Mode, text: &str, must_succeed: bool, label: &str) -> Option<Vec<Tok>> {
    o.evaluations += 1;
    let r = catch(|| {
        let list = analyze_list(dict, mode, None, text)?;
        let toks = toks_of(&list);
        let mut subs = Vec::new();
        for i in 0..list.len() {
            for sm in [Mode::A, Mode::B] {
                let mut out = MorphemeList::empty(dict.clone());
                let did = list.get(i).split_into(sm, &mut out).map_err(|e| classify_err(&e))?;
                subs.push((i, did, toks_of(&out)));
            }
        }
        Ok::<_, AErr>((toks, subs))
    });
    match r {
        Err(p) => {
            o.fail(Failure::panic(&format!("{} mode {} {}", wname, mode_name(mode), label), &p));
            None
        }
        Ok(Err(e)) => {
            if must_succeed {
                o.fail(Failure::new("unexpected-error", format!("[{} mode {}] {} -> {:?}", wname, mode_name(mode), label, e)));
            }
            o.count("errors", 1);
            None
        }
        Ok(Ok((toks, subs))) => {
            let ctx = format!("{} mode {}", wname, mode_name(mode));
            for f in partition_failures(text, &toks, 0, text.len(), &ctx) {
                o.fail(trim(f));
            }
            for f in codepoint_failures(text, &toks, &ctx) {
                o.fail(trim(f));
            }
            for (i, did, sub) in subs {
                if did {
                    for f in partition_failures(text, &sub, toks[i].begin, toks[i].end, &ctx) {
                        o.fail(trim(f));
                    }
                }
            }
            Some(toks)
        }
    }
}

fn trim(mut f: Failure) -> Failure {
    if f.detail.len() > 600 {
        let mut cut = 600;
        while !f.detail.is_char_boundary(cut) {
            cut -= 1;
        }
        f.detail.truncate(cut);
        f.detail.push_str("…");
    }
    f
}

pub fn c03_tree_oracle(t: &TextTree, text: &str) -> Outcome {
    let mut o = Outcome::new();
    for mode in MODES {
        if let Some(toks) = total_check(&mut o, &t.world.dict, t.world.name(), mode, text, true, &format!("{:?}", text)) {
            o.observe(&toks.len());
            if toks.iter().any(|t| t.is_oov) {
                o.nontrivial = true;
            }
        }
    }
    // the same on a tokenizer and a result list that were used before (the way the CLI and the
    // Python binding use them): analysis and every accessor must be as safe as on fresh objects
    o.evaluations += 1;
    let dict = &t.world.dict;
    let r = catch(|| {
        let mut tok = sudachi::analysis::stateful_tokenizer::StatefulTokenizer::new(dict.clone(), Mode::C);
        let mut l = MorphemeList::empty(dict.clone());
        for warm in ["東京都に行く", "京a"] {
            tok.reset().push_str(warm);
            if tok.do_tokenize().is_ok() {
                let _ = l.collect_results(&mut tok);
            }
        }
        tok.reset().push_str(text);
        tok.do_tokenize().map_err(|e| classify_err(&e))?;
        l.collect_results(&mut tok).map_err(|e| classify_err(&e))?;
        let toks = toks_of(&l);
        for i in 0..l.len() {
            for sm in [Mode::A, Mode::B] {
                let mut out = MorphemeList::empty(dict.clone());
                l.get(i).split_into(sm, &mut out).map_err(|e| classify_err(&e))?;
                let _ = toks_of(&out);
            }
        }
        Ok::<_, AErr>(toks)
    });
    match r {
        Err(p) => o.fail(Failure::panic(&format!("{} reused tokenizer and list {:?}", t.world.name(), text), &p)),
        Ok(Err(e)) => o.fail(Failure::new("unexpected-error", format!("[{} reused tokenizer and list] {:?} -> {:?}", t.world.name(), text, e))),
        Ok(Ok(toks)) => {
            for f in partition_failures(text, &toks, 0, text.len(), &format!("{} reused tokenizer and list", t.world.name())) {
                o.fail(trim(f));
            }
        }
    }
    o
}

// ---- (b) every scalar value in context ---------------------------------------------------------

pub struct ScalarCtx {
    pub world: Arc<World>,
    pub contexts: Vec<(&'static str, &'static str, bool)>, // prefix, suffix, double
    pub modes: Vec<Mode>,
    pub chunk: u32,
}

impl Space for ScalarCtx {
    type State = u32;
    fn name(&self) -> String {
        format!("{}/all-scalars", self.world.name())
    }
    fn init(&self) -> Vec<u32> {
        vec![u32::MAX]
    }
    fn next(&self, s: &u32, out: &mut Vec<u32>) {
        if *s == u32::MAX {
            let mut c = 0u32;
            while c <= 0x10FFFF {
                out.push(c);
                c += self.chunk;
            }
        }
    }
    fn check(&self, s: &u32) -> Outcome {
        let mut o = Outcome::new();
        if *s == u32::MAX {
            return o;
        }
        let mut ntok = 0usize;
        for cp in *s..(*s + self.chunk).min(0x110000) {
            let c = match char::from_u32(cp) {
                Some(c) => c,
                None => continue,
            };
            o.count("scalars", 1);
            for (pre, post, dbl) in &self.contexts {
                let text = if *dbl { format!("{}{}{}{}", pre, c, c, post) } else { format!("{}{}{}", pre, c, post) };
                for &m in &self.modes {
                    if let Some(t) = total_check(&mut o, &self.world.dict, self.world.name(), m, &text, true, &format!("U+{:04X} in {:?}", cp, text)) {
                        ntok += t.len();
                    }
                }
            }
        }
        o.nontrivial = true;
        o.observe(&ntok);
        o
    }
    fn describe(&self, s: &u32) -> Value {
        json!({"world": self.world.name(), "first_scalar": s, "chunk": self.chunk, "contexts": self.contexts})
    }
    fn parse(&self, v: &Value) -> Option<u32> {
        v["first_scalar"].as_u64().map(|x| x as u32)
    }
}

// ---- (c) boundary families -----------------------------------------------------------------------

#[derive(Clone, Debug)]
pub struct LenCase {
    pub pieces: Vec<(String, usize)>,
    pub note: String,
}

impl LenCase {
    pub fn text(&self) -> String {
        let mut s = String::new();
        for (u, n) in &self.pieces {
            for _ in 0..*n {
                s.push_str(u);
            }
        }
        s
    }
    pub fn describe(&self) -> Value {
        json!({"pieces": self.pieces.iter().map(|(u, n)| json!([u, n])).collect::<Vec<_>>(), "note": self.note})
    }
}

fn boundary_cases(table: &RewriteTable, tier: Tier) -> Vec<LenCase> {
    // (U+023A lower-cases to a character that is one byte longer, U+1E9E to one that is one byte
    // shorter: replacements of one character by one character that change the length)
    let units = ["a", "1", "é", "東", "𠮷", "㍿", "\u{fdfa}", "ｶﾞ", "Ａ", "あ", "\u{301}", " ", "\u{23a}", "\u{1e9e}"];
    let mut v = Vec::new();
    let pad = "a";
    for u in units {
        let ul = u.len();
        let nl = table.normalize(u).len();
        // original length around the limit
        for delta in -2i64..=2 {
            let target = (MAX_ORIG as i64 + delta) as usize;
            let n = target / ul;
            let p = target - n * ul;
            v.push(LenCase { pieces: vec![(pad.into(), p), (u.into(), n)], note: format!("original length {}", target) });
            if p > 0 {
                v.push(LenCase { pieces: vec![(u.into(), n), (pad.into(), p)], note: format!("original length {} (padding last)", target) });
            }
        }
        // normalised length around the limit (only meaningful for expanding units)
        if nl > ul {
            for delta in -2i64..=2 {
                let target = (MAX_NORM as i64 + delta) as usize;
                let n = target / nl;
                let p = target - n * nl;
                if p + n * ul <= MAX_ORIG + 3 {
                    v.push(LenCase { pieces: vec![(pad.into(), p), (u.into(), n)], note: format!("normalised length {}", target) });
                    v.push(LenCase { pieces: vec![(u.into(), n), (pad.into(), p)], note: format!("normalised length {} (padding last)", target) });
                }
            }
        }
        // powers of two / u16 cast / created-words bitset sizes, in characters
        let specials: &[usize] = match tier {
            Tier::Quick => &[1, 63, 64, 65, 127, 128, 255, 256, 16383, 16384],
            Tier::Thorough => &[1, 63, 64, 65, 127, 128, 129, 255, 256, 257, 4095, 4096, 16383, 16384, 16385, 32767, 32768, 32769],
        };
        for &n in specials {
            if n * ul <= MAX_ORIG && n * nl <= MAX_NORM {
                v.push(LenCase { pieces: vec![(u.into(), n)], note: format!("{} characters", n) });
            }
        }
    }
    // running length inside one edit batch exceeds the limit although the final length does not:
    // n expansions followed by m shrinking keys
    let fd = "\u{fdfa}";
    let fl = table.normalize(fd).len(); // 33
    let kg = "ｶﾞ";
    let kl = table.normalize(kg).len();
    let grid: Vec<(usize, usize)> = match tier {
        Tier::Quick => vec![(1300, 7540), (1200, 7000), (2100, 0), (1985, 0), (1986, 0), (100, 8000), (1400, 7000)],
        Tier::Thorough => {
            let mut g = vec![];
            for n in (0..=2200).step_by(100) {
                for m in (0..=8100).step_by(540) {
                    g.push((n, m));
                }
            }
            g.push((1300, 7540));
            g
        }
    };
    for (n, m) in grid {
        if n * fd.len() + m * kg.len() <= MAX_ORIG + 6 {
            let _ = (fl, kl);
            v.push(LenCase { pieces: vec![(fd.into(), n), (kg.into(), m)], note: format!("{} expansions then {} shrinking keys", n, m) });
            v.push(LenCase { pieces: vec![(kg.into(), m), (fd.into(), n)], note: format!("{} shrinking keys then {} expansions", m, n) });
        }
    }
    v
}

fn len_space(world: Arc<World>, table: RewriteTable, tier: Tier) -> CaseSpace<LenCase> {
    let cases = boundary_cases(&table, tier);
    let w = world.clone();
    CaseSpace {
        label: format!("{}/length-boundaries", world.name()),
        cases,
        check_fn: Box::new(move |c: &LenCase| {
            let mut o = Outcome::new();
            let text = c.text();
            let orig = text.len();
            let norm: usize = c.pieces.iter().map(|(u, n)| table.normalize(u).len() * n).sum();
            let expect_ok = orig <= MAX_ORIG && norm <= MAX_NORM;
            let label = format!("{} [original {} bytes, normalised {} bytes]", c.describe(), orig, norm);
            o.evaluations += 1;
            o.nontrivial = true;
            // the same tokenizer is then used for a small probe: a rejected input must leave it usable
            let r = catch(|| {
                let mut tok = sudachi::analysis::stateful_tokenizer::StatefulTokenizer::new(w.dict.clone(), Mode::C);
                let mut list = MorphemeList::empty(w.dict.clone());
                tok.reset().push_str(&text);
                let first = match tok.do_tokenize() {
                    Ok(()) => list.collect_results(&mut tok).map(|_| toks_of(&list)).map_err(|e| classify_err(&e)),
                    Err(e) => Err(classify_err(&e)),
                };
                tok.reset().push_str("東京都に行く");
                let probe = match tok.do_tokenize() {
                    Ok(()) => list.collect_results(&mut tok).map(|_| toks_of(&list)).map_err(|e| classify_err(&e)),
                    Err(e) => Err(classify_err(&e)),
                };
                (first, probe)
            });
            let r = match r {
                Err(p) => Err(p),
                Ok((first, probe)) => {
                    let fresh = analyze(&w.dict, Mode::C, "東京都に行く");
                    if probe != fresh {
                        o.fail(Failure::new("probe-after-boundary-input-differs", format!("{}: analysing a probe on the same tokenizer afterwards gives {:?}, a fresh tokenizer gives {:?}", label, probe.as_ref().map(|t| t.len()), fresh.as_ref().map(|t| t.len()))));
                    }
                    Ok(first)
                }
            };
            match r {
                Err(p) => o.fail(Failure::panic(&label, &p)),
                Ok(Err(AErr::TooLong(a, b))) => {
                    if expect_ok {
                        o.fail(Failure::new("rejected-within-limits", format!("{} rejected as too long ({} > {})", label, a, b)));
                    }
                    o.observe(&"toolong");
                }
                Ok(Err(AErr::Other(e))) => o.fail(Failure::new("unexpected-error", format!("{} -> {}", label, e))),
                Ok(Ok(toks)) => {
                    if !expect_ok {
                        o.fail(Failure::new("accepted-beyond-limits", format!("{} was accepted ({} morphemes)", label, toks.len())));
                    }
                    for f in partition_failures(&text, &toks, 0, text.len(), "length family") {
                        o.fail(trim(f));
                    }
                    for f in codepoint_failures(&text, &toks, "length family") {
                        o.fail(trim(f));
                    }
                    o.observe(&("ok", toks.len()));
                }
            }
            o
        }),
        describe_fn: Box::new(|c: &LenCase| c.describe()),
    }
}

// ---- (d) cost extremes: i32 path cost accumulation ----------------------------------------------

fn cost_world(name: &str, word_cost: i32, conn: i32) -> Arc<World> {
    let mut s = spec_min(name);
    s.matrix = Matrix::generate(10, 10, |l, r| if l == 0 || r == 0 { 0 } else { conn });
    for r in s.system.iter_mut() {
        if r.surface == "1" {
            r.cost = word_cost;
        }
    }
    Arc::new(World::build(s).expect("cost world"))
}

fn cost_of_world(name: &str) -> (i32, i32) {
    match name {
        "W-cost-max" => (32767, 32767),
        "W-cost-min" => (-32768, -32768),
        _ => (32767, -32768),
    }
}

fn cost_space(tier: Tier) -> CaseSpace<(Arc<World>, usize)> {
    let mut cases = Vec::new();
    for (name, wc, cc) in [("W-cost-max", 32767, 32767), ("W-cost-min", -32768, -32768), ("W-cost-mixed", 32767, -32768)] {
        let w = cost_world(name, wc, cc);
        let ns: &[usize] = match tier {
            Tier::Quick => &[100, 32766, 32767, 32768, 32769, 49149],
            Tier::Thorough => &[1, 100, 16384, 32766, 32767, 32768, 32769, 32770, 40000, 49148, 49149],
        };
        for &n in ns {
            cases.push((w.clone(), n));
        }
    }
    CaseSpace {
        label: "W-cost-extremes/path-cost-accumulation".into(),
        cases,
        check_fn: Box::new(|(w, n): &(Arc<World>, usize)| {
            let mut o = Outcome::new();
            let text = "1".repeat(*n);
            o.evaluations += 1;
            o.nontrivial = true;
            let label = format!("{}: \"1\" x {}", w.name(), n);
            // does the exact path cost of the only reasonable segmentation leave the i32 range?
            let (wc, cc) = cost_of_world(w.name());
            let exact: i64 = (*n as i64) * (wc as i64) + (*n as i64 - 1) * (cc as i64);
            let beyond_i32 = exact > i32::MAX as i64 || exact < i32::MIN as i64;
            match catch(|| analyze(&w.dict, Mode::C, &text)) {
                Err(p) => {
                    let mut f = Failure::panic(&label, &p);
                    if beyond_i32 && p.message.contains("overflow") {
                        // the documented-limit input whose true path cost does not fit the cost type
                        f.kind = "panic-path-cost-beyond-i32".into();
                    }
                    o.fail(f)
                }
                Ok(Err(e)) => o.fail(Failure::new("unexpected-error", format!("{} -> {:?}", label, e))),
                Ok(Ok(toks)) => {
                    for f in partition_failures(&text, &toks, 0, text.len(), &label) {
                        o.fail(trim(f));
                    }
                    if let Some(last) = toks.last() {
                        if !beyond_i32 && toks.len() == *n && last.total_cost as i64 != exact {
                            o.fail(Failure::new("cumulative-cost", format!("{}: total_cost {} but exact arithmetic gives {}", label, last.total_cost, exact)));
                        }
                    }
                    o.observe(&toks.len());
                }
            }
            o
        }),
        describe_fn: Box::new(|(w, n)| json!({"world": w.name(), "text": format!("\"1\" x {}", n)})),
    }
}

pub fn main(tier: Tier, replay: Option<String>) -> i32 {
    let mut rep = Report::new("C03", "model_checking", tier);
    rep.rule = "(a) the C01 string trees with oracle 'no panic in analysis, in any accessor or in split_into, and the result is Ok'; (b) every Unicode scalar value alone and in contexts; (c) generated length-boundary families (original length 49149±2, normalised length 65535±2, power-of-two character counts, expansion/shrink grids) with verdict predicted by arithmetic; (d) path-cost accumulation with costs at the i16 limits; non-trivial = an out-of-vocabulary token occurred / any boundary or scalar case".into();
    rep.assumptions = vec![
        "built with debug-assertions and overflow-checks on (profile verif), so unchecked indexing guarded by debug_assert and integer overflow surface as panics".into(),
        "allocation failure and stack exhaustion are out of reach".into(),
    ];
    let mut jobs: Vec<Box<dyn AnyJob>> = Vec::new();
    let full = Arc::new(World::build(spec_full("W-full", true)).expect("W-full"));
    // (c) and (d) first: cheap and the most likely to find something
    jobs.push(job(len_space(full.clone(), RewriteTable::parse(&shipped("rewrite.def")), tier), Strategy::Bfs, Some(tier.pick(60, 1200)), json!({"families": "see rule"})));
    jobs.push(job(cost_space(tier), Strategy::Bfs, Some(tier.pick(60, 600)), json!({"n": "1..49149 at listed points", "costs": "+-i16 limits"})));
    // (b)
    let contexts: Vec<(&'static str, &'static str, bool)> = match tier {
        Tier::Quick => vec![("", "", false), ("東", "", false), ("", "a", false), ("", "", true)],
        Tier::Thorough => vec![("", "", false), ("東", "", false), ("", "a", false), ("", "", true), ("1", "1", false), ("ア", "", false), ("", "\u{301}", false), ("\u{200d}", "", false), ("(", ")", false)],
    };
    jobs.push(job(
        ScalarCtx { world: full.clone(), contexts: contexts.clone(), modes: tier.pick(vec![Mode::C], vec![Mode::A, Mode::C]), chunk: 128 },
        Strategy::Bfs,
        Some(tier.pick(90, 2400)),
        json!({"scalars": "all 1,112,064", "contexts": contexts}),
    ));
    if tier == Tier::Thorough {
        let norm = Arc::new(World::build(spec_norm("W-norm")).expect("W-norm"));
        jobs.push(job(
            ScalarCtx { world: norm, contexts: contexts.clone(), modes: vec![Mode::C], chunk: 128 },
            Strategy::Bfs,
            Some(2400),
            json!({"scalars": "all 1,112,064", "contexts": contexts}),
        ));
    }
    // (a)
    for (i, j) in c01::jobs(tier, c03_tree_oracle).into_iter().enumerate() {
        if tier == Tier::Quick && i == 0 {
            // the primary tree is already run with the same panic detection by C01/C08; keep C03 quick
            continue;
        }
        jobs.push(j);
    }
    drive(rep, jobs, replay)
}
