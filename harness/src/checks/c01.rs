//! C01 – morphemes partition the original text byte for byte.
//!
//! Space: prefix tree of Σ* per (world, alphabet); every state is analysed in modes A, B, C with
//! the real tokenizer, and every C-mode morpheme is split on demand into A and B.

use crate::checks::inv::{codepoint_failures, partition_failures};
use crate::common::evidence::{Report, Tier};
use crate::common::explore::*;
use crate::common::findings::Failure;
use crate::common::panics::catch;
use crate::common::refmodel::*;
use crate::common::worlds::*;
use serde_json::{json, Value};
use std::sync::Arc;
use sudachi::analysis::Mode;
use sudachi::prelude::MorphemeList;

pub struct TextTree {
    pub world: Arc<World>,
    pub label: String,
    pub alpha: Vec<Sym>,
    pub bounds: TreeBounds,
    pub oracle: fn(&TextTree, &str) -> Outcome,
}

impl Space for TextTree {
    type State = Vec<u8>;
    fn name(&self) -> String {
        format!("{}/{}", self.world.name(), self.label)
    }
    fn init(&self) -> Vec<Self::State> {
        vec![vec![]]
    }
    fn next(&self, s: &Self::State, out: &mut Vec<Self::State>) {
        tree_next(&self.alpha, &self.bounds, s, out)
    }
    fn check(&self, s: &Self::State) -> Outcome {
        let text = tree_text(&self.alpha, s);
        (self.oracle)(self, &text)
    }
    fn describe(&self, s: &Self::State) -> Value {
        json!({"world": self.world.name(), "symbols": s, "text": tree_text(&self.alpha, s)})
    }
    fn parse(&self, v: &Value) -> Option<Self::State> {
        let a = v["symbols"].as_array()?;
        let st: Vec<u8> = a.iter().filter_map(|x| x.as_u64().map(|n| n as u8)).collect();
        if st.iter().any(|&i| i as usize >= self.alpha.len()) {
            return None;
        }
        Some(st)
    }
}

pub fn c01_oracle(t: &TextTree, text: &str) -> Outcome {
    let mut o = Outcome::new();
    let dict = &t.world.dict;
    let norm = match catch(|| normalized_text(dict, text)) {
        Ok(Ok(n)) => Some(n),
        _ => None,
    };
    for mode in MODES {
        o.evaluations += 1;
        let r = catch(|| analyze_list(dict, mode, None, text));
        let list = match r {
            Err(p) => {
                o.fail(Failure::panic(&format!("analyse mode {} {:?}", mode_name(mode), text), &p));
                continue;
            }
            Ok(Err(_)) => {
                // rejected inputs are outside C01 (C03 decides whether rejecting was right)
                o.count("rejected", 1);
                continue;
            }
            Ok(Ok(l)) => l,
        };
        let toks = match catch(|| toks_of(&list)) {
            Ok(t) => t,
            Err(p) => {
                o.fail(Failure::panic(&format!("accessors mode {} {:?}", mode_name(mode), text), &p));
                continue;
            }
        };
        let ctx = format!("{} mode {}", t.world.name(), mode_name(mode));
        for f in partition_failures(text, &toks, 0, text.len(), &ctx) {
            o.fail(f);
        }
        for f in codepoint_failures(text, &toks, &ctx) {
            o.fail(f);
        }
        // surfaces partition the text whatever fields are loaded: nothing at all, or the surface only
        if mode == Mode::C {
            for sub in [sudachi::dic::subset::InfoSubset::empty(), sudachi::dic::subset::InfoSubset::SURFACE] {
                o.evaluations += 1;
                match catch(|| analyze_list(dict, mode, Some(sub), text).map(|l| toks_of(&l))) {
                    Err(p) => o.fail(Failure::panic(&format!("fields {:?} mode {} {:?}", sub, mode_name(mode), text), &p)),
                    Ok(Err(_)) => o.count("rejected", 1),
                    Ok(Ok(st)) => {
                        for f in partition_failures(text, &st, 0, text.len(), &format!("{} fields {:?}", ctx, sub)) {
                            o.fail(f);
                        }
                    }
                }
            }
        }
        // the stateless front end (its own way of turning the result into a list)
        {
            use sudachi::analysis::stateless_tokenizer::StatelessTokenizer;
            use sudachi::analysis::Tokenize;
            o.evaluations += 1;
            match catch(|| StatelessTokenizer::new(dict.clone()).tokenize(text, mode, false).map(|l| toks_of(&l)).map_err(|e| classify_err(&e))) {
                Err(p) => o.fail(Failure::panic(&format!("stateless tokenizer mode {} {:?}", mode_name(mode), text), &p)),
                Ok(Err(e)) => o.fail(Failure::new("stateless-tokenizer-differs", format!("[{}] {:?}: the stateless tokenizer rejects the text ({:?})", ctx, text, e))),
                Ok(Ok(st)) => {
                    for f in partition_failures(text, &st, 0, text.len(), &format!("{} stateless tokenizer", ctx)) {
                        o.fail(f);
                    }
                    if st != toks {
                        let k = st.iter().zip(toks.iter()).position(|(a, b)| a != b).unwrap_or(st.len().min(toks.len()));
                        o.fail(Failure::new("stateless-tokenizer-differs", format!("[{}] {:?}: the stateless tokenizer gives {} tokens, the stateful one {}; first difference at {}: {:?} vs {:?}", ctx, text, st.len(), toks.len(), k, st.get(k), toks.get(k))));
                    }
                }
            }
        }
        if let Some(n) = &norm {
            if toks.is_empty() != n.is_empty() {
                o.fail(Failure::new(
                    "empty-iff-normalised-empty",
                    format!("[{}] {} morphemes for {:?} whose normalised form is {:?}", ctx, toks.len(), text, n),
                ));
            }
            if n != text {
                o.nontrivial = true;
            }
        }
        if toks.iter().any(|t| t.begin == t.end) {
            o.nontrivial = true;
            o.count("empty_range_morphemes", 1);
        }
        o.observe(&toks.iter().map(|t| (t.begin, t.end, t.word_id)).collect::<Vec<_>>());
        // the usual way to use the library is a reused tokenizer and a reused result list: the
        // morphemes reported for this text after two earlier analyses must be the same partition
        if mode == Mode::C {
            o.evaluations += 1;
            let r = catch(|| {
                let mut tok = sudachi::analysis::stateful_tokenizer::StatefulTokenizer::new(dict.clone(), Mode::C);
                let mut l = MorphemeList::empty(dict.clone());
                // (both are rewritten to text of the same byte length with the bytes laid out differently)
                for warm in ["É…東京都に行く1,000円", "…É京"] {
                    tok.reset().push_str(warm);
                    if tok.do_tokenize().is_ok() {
                        let _ = l.collect_results(&mut tok);
                    }
                }
                tok.reset().push_str(text);
                tok.do_tokenize().map_err(|e| classify_err(&e))?;
                l.collect_results(&mut tok).map_err(|e| classify_err(&e))?;
                Ok::<_, AErr>(toks_of(&l))
            });
            match r {
                Err(p) => o.fail(Failure::panic(&format!("reused tokenizer {:?}", text), &p)),
                Ok(Err(e)) => o.fail(Failure::new("reused-tokenizer-differs", format!("[{}] {:?}: a reused tokenizer rejects the text ({:?}), a fresh one accepts it", ctx, text, e))),
                Ok(Ok(rt)) => {
                    for f in partition_failures(text, &rt, 0, text.len(), &format!("{} reused tokenizer", ctx)) {
                        o.fail(f);
                    }
                    if toks.is_empty() != rt.is_empty() {
                        o.fail(Failure::new("empty-iff-normalised-empty", format!("[{} reused tokenizer] {} morphemes for {:?}, a fresh tokenizer gives {}", ctx, rt.len(), text, toks.len())));
                    }
                }
            }
        }
        // on-demand split of every C morpheme
        if mode == Mode::C {
            for (i, parent) in toks.iter().enumerate() {
                for sm in [Mode::A, Mode::B] {
                    let r = catch(|| {
                        let mut out = MorphemeList::empty(dict.clone());
                        let did = list.get(i).split_into(sm, &mut out);
                        (did.map_err(|e| format!("{}", e)), toks_of(&out))
                    });
                    match r {
                        Err(p) => o.fail(Failure::panic(&format!("split_into {} of token {} of {:?}", mode_name(sm), i, text), &p)),
                        Ok((Err(e), _)) => o.fail(Failure::new("split-error", format!("split_into failed: {} for token {} of {:?}", e, i, text))),
                        Ok((Ok(did), sub)) => {
                            if !did && !sub.is_empty() {
                                o.fail(Failure::new("split-false-but-output", format!("split_into returned false but wrote {} morphemes ({:?} token {})", sub.len(), text, i)));
                            }
                            if did {
                                o.nontrivial = true;
                                o.count("on_demand_splits", 1);
                                let c2 = format!("{} split_into {} of token {}", t.world.name(), mode_name(sm), i);
                                for f in partition_failures(text, &sub, parent.begin, parent.end, &c2) {
                                    o.fail(f);
                                }
                                for f in codepoint_failures(text, &sub, &c2) {
                                    o.fail(f);
                                }
                            }
                        }
                    }
                }
            }
        } else if toks.len() > 0 {
            o.count("tokens_ab", toks.len() as u64);
        }
    }
    o
}

pub fn alphabet_main() -> Vec<Sym> {
    syms(
        &["東", "京", "1", "a"],
        &["㍿", "ｶ", "ﾞ", "ー", "(", "ア", ")", "\u{301}", "A", "一", "十", ",", "𠮷", "あ", "野", "都", "c", "d"],
    )
}

pub fn alphabet_norm() -> Vec<Sym> {
    syms(&["a", "b", "c"], &["A", "ｶ", "ﾞ", "Ⅲ", "㍿", "é", "É", "\u{fdfa}", "ー", "う", "゛"])
}

pub fn alphabet_user() -> Vec<Sym> {
    syms(&["東", "京", "府"], &["都", "す", "だ", "ち", "ぴ", "ら", "る", "か", "ぼ"])
}

pub fn worlds_for_c01() -> Vec<(Arc<World>, Vec<Sym>, &'static str)> {
    let mut v: Vec<(Arc<World>, Vec<Sym>, &'static str)> = Vec::new();
    let mk = |s: WorldSpec| Arc::new(World::build(s).unwrap_or_else(|e| panic!("world build failed: {}", e)));
    v.push((mk(spec_full("W-full", true)), alphabet_main(), "main"));
    v.push((mk(spec_full("W-full-norewrite", false)), alphabet_main(), "main"));
    v.push((mk(spec_norm("W-norm")), alphabet_norm(), "norm"));
    v.push((mk(spec_min("W-min")), alphabet_main(), "main"));
    v.push((mk(spec_user("W-user2", 2, true)), alphabet_user(), "user"));
    v.push((mk(spec_reordered("W-full-reordered")), alphabet_reordered(), "reordered"));
    v.push((mk(spec_full("W-full-interaction", true)), alphabet_interaction(), "interaction"));
    // numerals whose headword is longer / shorter than their key: a joined numeral takes its range from the text
    let mut s = spec_full("W-full-numeral-headwords", true);
    for r in s.system.iter_mut() {
        match r.surface.as_str() {
            "1" => r.headword = "１".into(),
            "一" => r.headword = "1".into(),
            "十" => r.headword = "１０".into(),
            "," => r.headword = "，".into(),
            _ => {}
        }
    }
    v.push((mk(s), syms(&["1", "一", "a"], &["十", ",", "東", "㍿", "ア", "Ａ", "."]), "numeral-headwords"));
    // input-text plugins that can delete ALL of a non-empty text: runs of long marks are replaced by the empty
    // string (a legal setting), bracketed readings are removed
    let mut s = spec_full("W-full-erasing", true);
    s.plugins["inputTextPlugin"] = json!([
        default_input_text(),
        prolonged(&["ー", "-", "〜"], ""),
        yomigana(&["(", "（"], &[")", "）"], 4),
    ]);
    v.push((mk(s), syms(&["ー", "〜", "京"], &["-", "(", "ア", ")", "a", "Ａ", "ｰ", "1"]), "erasing"));
    v
}

/// for the interaction of two input-text plugins: symbols that the table-driven plugin rewrites to text of the
/// SAME total byte length with the bytes moved (`ｶﾞ` shrinks by three bytes, `½` grows by three), around
/// what the later plugins edit (runs of long marks, bracketed readings)
pub fn alphabet_interaction() -> Vec<Sym> {
    syms(&["ｶﾞ", "½", "ーー"], &["京", "Ａ", "㍿", "(ア)", "東", "ア", "ＡＢＣ", "㌢", "ｰｰ"])
}

/// for the world with reordered input plugins: text that the first plugins shorten (long marks,
/// bracketed readings) in front of text that the table-driven plugin expands or folds
pub fn alphabet_reordered() -> Vec<Sym> {
    syms(&["京", "ー", "㍿"], &["Ａ", "(", "ア", ")", "都", "ｶ", "ﾞ", "a", "東"])
}

pub fn jobs(tier: Tier, oracle: fn(&TextTree, &str) -> Outcome) -> Vec<Box<dyn AnyJob>> {
    let mut jobs: Vec<Box<dyn AnyJob>> = Vec::new();
    for (i, (w, alpha, label)) in worlds_for_c01().into_iter().enumerate() {
        // primary world gets the deepest bound
        let bounds = match (tier, i) {
            (Tier::Quick, 0) => TreeBounds { full_len: 3, ext_len: 5, max_special: 2 },
            (Tier::Quick, _) => TreeBounds { full_len: 3, ext_len: 5, max_special: 1 },
            (Tier::Thorough, 0) => TreeBounds { full_len: 4, ext_len: 7, max_special: 2 },
            (Tier::Thorough, _) => TreeBounds { full_len: 4, ext_len: 6, max_special: 2 },
        };
        let b = bounds.to_json();
        jobs.push(job(
            TextTree { world: w, label: label.to_string(), alpha, bounds, oracle },
            Strategy::Dfs,
            Some(tier.pick(40, 1500)),
            b,
        ));
    }
    jobs
}

/// inputs around the normalised-length limit: whatever is accepted must still be a partition
fn long_inputs(world: Arc<World>) -> CaseSpace<(String, usize)> {
    let mut cases = Vec::new();
    for (unit, ns) in [("㍿", vec![5455usize, 5460, 5461, 5462, 5463, 8000, 16382]), ("\u{fdfa}", vec![1984, 1985, 1986, 1987, 3000])] {
        for n in ns {
            cases.push((unit.to_string(), n));
        }
    }
    // mixtures: many one-to-one rewrites (half-width kana, a letter whose lower case is longer)
    // in front of expanding characters; the normalised length passes 65535 only through both
    for (prefix, k, unit, n) in [("ｱ", 8000usize, "㍿", 3500usize), ("ｱ", 8000, "㍿", 3400), ("\u{23a}", 12000, "㍿", 2500), ("Я", 11000, "\u{fdfa}", 1400)] {
        cases.push((format!("{}\u{1}{}\u{1}{}", prefix, k, unit), n));
    }
    let w = world.clone();
    CaseSpace {
        label: format!("{}/long-expanding-inputs", world.name()),
        cases,
        check_fn: Box::new(move |(unit, n): &(String, usize)| {
            let mut o = Outcome::new();
            o.nontrivial = true;
            for tail in ["京都に行く", ""] {
                let text = if unit.contains('\u{1}') {
                    let f: Vec<&str> = unit.split('\u{1}').collect();
                    format!("{}{}{}", f[0].repeat(f[1].parse::<usize>().unwrap_or(0)), f[2].repeat(*n), tail)
                } else {
                    format!("{}{}", unit.repeat(*n), tail)
                };
                for mode in [Mode::C, Mode::A] {
                    o.evaluations += 1;
                    match catch(|| analyze(&w.dict, mode, &text)) {
                        Err(p) => o.fail(Failure::panic(&format!("{:?} x {} + {:?} mode {}", unit, n, tail, mode_name(mode)), &p)),
                        Ok(Err(_)) => o.count("rejected", 1),
                        Ok(Ok(toks)) => {
                            let ctx = format!("{:?} x {} + {:?} mode {}", unit, n, tail, mode_name(mode));
                            for mut f in partition_failures(&text, &toks, 0, text.len(), &ctx).into_iter().chain(codepoint_failures(&text, &toks, &ctx)) {
                                if f.detail.len() > 400 {
                                    let mut cut = 400;
                                    while !f.detail.is_char_boundary(cut) {
                                        cut -= 1;
                                    }
                                    f.detail.truncate(cut);
                                }
                                o.fail(f);
                            }
                            o.observe(&toks.len());
                        }
                    }
                }
            }
            o
        }),
        describe_fn: Box::new(|(unit, n): &(String, usize)| json!({"unit": unit, "count": n})),
    }
}

pub fn main(tier: Tier, replay: Option<String>) -> i32 {
    let mut rep = Report::new("C01", "model_checking", tier);
    rep.rule = "states = all strings over the world's alphabet within the bound (full product up to full_product_len; beyond that at most max_special special symbols); each state is tokenized in modes A,B,C by the real tokenizer and every C morpheme is split on demand; non-trivial = normalised text differs from the input, or an empty-range morpheme or an on-demand split occurred".into();
    rep.assumptions = vec![
        "inputs rejected with an error value are outside C01 (counted as 'rejected')".into(),
        "dictionaries are the fabricated worlds of common/worlds.rs compiled by the repository's own DictBuilder".into(),
    ];
    let mut jobs = jobs(tier, c01_oracle);
    let full = Arc::new(World::build(spec_full("W-full", true)).expect("W-full"));
    jobs.insert(0, job(long_inputs(full), Strategy::Bfs, Some(120), json!({"family": "expanding units around the 65535-byte normalised limit"})));
    drive(rep, jobs, replay)
}
