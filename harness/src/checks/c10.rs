//! C10 – results do not depend on what a tokenizer or result list processed before.
//!
//! State = operation history on ONE StatefulTokenizer and ONE reused MorphemeList (plus a second
//! reused list for on-demand splits).  No de-duplication: hidden recycled state is what is under
//! test.  After every history, three probe texts are analysed on the used objects and compared
//! with a freshly created tokenizer + list with the same mode and field request.

use crate::common::evidence::{Report, Tier};
use crate::common::explore::*;
use crate::common::findings::Failure;
use crate::common::panics::catch;
use crate::common::refmodel::*;
use crate::common::worlds::*;
use serde_json::{json, Value};
use std::sync::Arc;
use sudachi::analysis::stateful_tokenizer::StatefulTokenizer;
use sudachi::analysis::Mode;
use sudachi::dic::subset::InfoSubset;
use sudachi::prelude::MorphemeList;

#[derive(Clone, Debug)]
pub enum Op {
    SetMode(Mode),
    SetSubset(usize),
    Analyse(usize),
    AnalyseNoCollect(usize),
    Collect,
    SplitInto(Mode),
    Lookup(&'static str),
    ClearList,
}

pub struct HistorySpace {
    pub world: Arc<World>,
    pub ops: Vec<Op>,
    pub subsets: Vec<InfoSubset>,
    pub texts: Vec<String>,
    pub probes: Vec<String>,
    pub depth: usize,
}

fn op_name(op: &Op, texts: &[String]) -> String {
    match op {
        Op::Analyse(i) | Op::AnalyseNoCollect(i) => {
            let t = &texts[*i];
            let short: String = if t.chars().count() > 12 { format!("{}…({} bytes)", t.chars().take(6).collect::<String>(), t.len()) } else { t.clone() };
            format!("{}({:?})", if matches!(op, Op::Analyse(_)) { "analyse+collect" } else { "analyse" }, short)
        }
        other => format!("{:?}", other),
    }
}

/// the fields of a token that were requested
fn project(t: &Tok, s: InfoSubset) -> Vec<String> {
    let mut v = vec![format!("{}..{}", t.begin, t.end), format!("{:#x}", t.word_id), t.surface.clone(), format!("{}..{}c", t.begin_c, t.end_c), format!("oov={}", t.is_oov), format!("dic={}", t.dic_id)];
    if s.contains(InfoSubset::SURFACE) {
        v.push(format!("headword={}", t.wi_surface));
    }
    if s.contains(InfoSubset::HEAD_WORD_LENGTH) {
        v.push(format!("hwl={}", t.head_word_length));
    }
    if s.contains(InfoSubset::POS_ID) {
        v.push(format!("pos={:?}", t.pos));
    }
    if s.contains(InfoSubset::NORMALIZED_FORM) && s.contains(InfoSubset::SURFACE) {
        v.push(format!("norm={}", t.normalized));
    }
    if s.contains(InfoSubset::DIC_FORM_WORD_ID) && s.contains(InfoSubset::SURFACE) {
        v.push(format!("dict={}", t.dictionary));
    }
    if s.contains(InfoSubset::READING_FORM) && s.contains(InfoSubset::SURFACE) {
        v.push(format!("reading={}", t.reading));
    }
    if s.contains(InfoSubset::SPLIT_A) {
        v.push(format!("a={:?}", t.a_split));
    }
    if s.contains(InfoSubset::SPLIT_B) {
        v.push(format!("b={:?}", t.b_split));
    }
    if s.contains(InfoSubset::WORD_STRUCTURE) {
        v.push(format!("ws={:?}", t.word_structure));
    }
    if s.contains(InfoSubset::SYNONYM_GROUP_ID) {
        v.push(format!("syn={:?}", t.synonyms));
    }
    v
}

fn mode_subset(m: Mode) -> InfoSubset {
    match m {
        Mode::A => InfoSubset::SPLIT_A,
        Mode::B => InfoSubset::SPLIT_B,
        Mode::C => InfoSubset::empty(),
    }
}

impl Space for HistorySpace {
    type State = Vec<u8>;
    fn name(&self) -> String {
        format!("{}/operation-histories", self.world.name())
    }
    fn init(&self) -> Vec<Vec<u8>> {
        vec![vec![]]
    }
    fn next(&self, s: &Vec<u8>, out: &mut Vec<Vec<u8>>) {
        if s.len() >= self.depth {
            return;
        }
        for i in 0..self.ops.len() {
            let mut n = s.clone();
            n.push(i as u8);
            out.push(n);
        }
    }
    fn check(&self, s: &Vec<u8>) -> Outcome {
        let mut o = Outcome::new();
        let dict = &self.world.dict;
        let hist: Vec<String> = s.iter().map(|&i| op_name(&self.ops[i as usize], &self.texts)).collect();
        let r = catch(|| {
            let mut fails: Vec<Failure> = Vec::new();
            let mut evals = 0u64;
            let mut tok = StatefulTokenizer::new(dict.clone(), Mode::C);
            let mut list = MorphemeList::empty(dict.clone());
            let mut list2 = MorphemeList::empty(dict.clone());
            let mut mode = Mode::C;
            let mut requested: Option<InfoSubset> = None;
            let mut had_error = false;
            for &i in s {
                match &self.ops[i as usize] {
                    Op::SetMode(m) => {
                        tok.set_mode(*m);
                        mode = *m;
                    }
                    Op::SetSubset(k) => {
                        tok.set_subset(self.subsets[*k]);
                        requested = Some(self.subsets[*k]);
                    }
                    Op::Analyse(t) => {
                        tok.reset().push_str(&self.texts[*t]);
                        evals += 1;
                        match tok.do_tokenize() {
                            Ok(()) => {
                                let _ = list.collect_results(&mut tok);
                            }
                            Err(_) => had_error = true,
                        }
                    }
                    Op::AnalyseNoCollect(t) => {
                        tok.reset().push_str(&self.texts[*t]);
                        evals += 1;
                        if tok.do_tokenize().is_err() {
                            had_error = true;
                        }
                    }
                    Op::Collect => {
                        let _ = list.collect_results(&mut tok);
                    }
                    Op::SplitInto(m) => {
                        if list.len() > 0 {
                            let idx = list.len() / 2;
                            let _ = list.get(idx).split_into(*m, &mut list2);
                        }
                    }
                    Op::Lookup(q) => {
                        // as the Python binding does: the list is cleared first (lookup appends to
                        // the node list but replaces the input, so morphemes of an earlier analysis
                        // left in the list would refer to the wrong text - not an operation the
                        // property quantifies over)
                        list.clear();
                        let _ = list.lookup(q, InfoSubset::all());
                    }
                    Op::ClearList => list.clear(),
                }
            }
            // probes
            for p in &self.probes {
                evals += 2;
                tok.reset().push_str(p);
                let used: Result<Vec<Tok>, AErr> = match tok.do_tokenize() {
                    Ok(()) => list.collect_results(&mut tok).map(|_| toks_of(&list)).map_err(|e| classify_err(&e)),
                    Err(e) => Err(classify_err(&e)),
                };
                let mut ftok = StatefulTokenizer::new(dict.clone(), mode);
                if let Some(rq) = requested {
                    ftok.set_subset(rq);
                }
                let mut flist = MorphemeList::empty(dict.clone());
                ftok.reset().push_str(p);
                let fresh: Result<Vec<Tok>, AErr> = match ftok.do_tokenize() {
                    Ok(()) => flist.collect_results(&mut ftok).map(|_| toks_of(&flist)).map_err(|e| classify_err(&e)),
                    Err(e) => Err(classify_err(&e)),
                };
                let cmp = match requested {
                    None => InfoSubset::all(),
                    Some(rq) => (rq | mode_subset(mode)).normalize(),
                };
                match (&used, &fresh) {
                    (Ok(u), Ok(f)) => {
                        let pu: Vec<Vec<String>> = u.iter().map(|t| project(t, cmp)).collect();
                        let pf: Vec<Vec<String>> = f.iter().map(|t| project(t, cmp)).collect();
                        if pu != pf {
                            let first = pu.iter().zip(pf.iter()).position(|(a, b)| a != b).unwrap_or(pu.len().min(pf.len()));
                            fails.push(Failure::new(
                                "differs-from-fresh",
                                format!("after {:?} (mode {}, requested {:?}) probe {:?}: used objects give {} tokens, fresh {}; first difference at token {}: {:?} vs {:?}", hist, mode_name(mode), requested, p, pu.len(), pf.len(), first, pu.get(first), pf.get(first)),
                            ));
                        }
                    }
                    (Err(a), Err(b)) if a == b => {}
                    (a, b) => fails.push(Failure::new(
                        "differs-from-fresh",
                        format!("after {:?} probe {:?}: used objects give {:?}, fresh gives {:?}", hist, p, a.as_ref().map(|t| t.len()), b.as_ref().map(|t| t.len())),
                    )),
                }
            }
            (fails, evals, had_error)
        });
        match r {
            Err(p) => o.fail(Failure::panic(&format!("{} history {:?}", self.world.name(), hist), &p)),
            Ok((fails, evals, had_error)) => {
                o.failures = fails;
                o.evaluations = evals;
                o.nontrivial = s.len() > 0;
                if had_error {
                    o.count("histories_with_failed_analysis", 1);
                }
            }
        }
        o.observe(s);
        o
    }
    fn describe(&self, s: &Vec<u8>) -> Value {
        json!({"world": self.world.name(), "ops": s, "history": s.iter().map(|&i| op_name(&self.ops[i as usize], &self.texts)).collect::<Vec<_>>()})
    }
    fn parse(&self, v: &Value) -> Option<Vec<u8>> {
        Some(v["ops"].as_array()?.iter().filter_map(|x| x.as_u64().map(|n| n as u8)).collect())
    }
}

pub fn main(tier: Tier, replay: Option<String>) -> i32 {
    let mut rep = Report::new("C10", "model_checking", tier);
    rep.rule = "states = every sequence of operations up to `depth` on one tokenizer, one reused result list and one reused split list (set_mode x3, set_subset x3, analyse+collect of long / short / empty / over-long original / over-long normalised / numeral-joining / split-bearing texts, analyse without collect, collect alone, on-demand split into the reused list, exact lookup on the reused list, clear); after each sequence seven probes are analysed on the used objects and on fresh ones; compared on boundaries, word identities and every requested field; non-trivial = non-empty history".into();
    rep.assumptions = vec!["field requests are restricted, as in the statement, to subsets containing what the configured path-rewrite plugins read (surface, part of speech, normalised form) in the world with path rewriting; the world without path rewriting also uses the empty request".into()];
    let mut jobs: Vec<Box<dyn AnyJob>> = Vec::new();
    let too_long = "あ".repeat(16384); // 49152 bytes > 49149
    let norm_overflow = "\u{fdfa}".repeat(2000); // 6000 bytes -> 66000 bytes
    let long = "東京都に行く1,000円㍿東京府ab".repeat(6);
    // the last one is rewritten right at its start (a stale offset map would hit the probes)
    let texts: Vec<String> = vec![long, "京".into(), "".into(), too_long, norm_overflow, "二千三百円".into(), "東京都ab𠮷野".into(), "Ａ㍿京都".into(), "…京".into(), "京都に".repeat(2750), "ぴらる".repeat(700)];
    // (the very last one: 2100 characters made of the cheapest word there is - whatever it leaves behind in the lattice is cheaper than any path of a probe)
    // (the very last one is accepted and has 8250 characters: whatever grows with the longest text seen so far has grown)
    // (the last one is rewritten without a change of its byte length: `…` becomes `...`)
    // (the last three: runs of letters - only the first letter of a run may begin a word, whatever began words at these
    // offsets in the texts the two alternating buffers held before; `q` is a dictionary word, so a wrong word start inside
    // `qq` changes the best path)
    let probes: Vec<String> = vec!["東京都に行く".into(), "1,000円ab㍿".into(), "𠮷野カタカタア".into(), "qq".into(), "abcdefghijklmnopqrstuvwx".into(), "qqq".into(), "都都東都京".into()];
    // (the last probe: words whose declared units end in the middle of a character, analysed in a buffer that held letters two analyses ago)
    let ops_for = |with_rewrite: bool| -> (Vec<Op>, Vec<InfoSubset>) {
        let base = InfoSubset::SURFACE | InfoSubset::POS_ID | InfoSubset::NORMALIZED_FORM;
        let subsets = if with_rewrite {
            vec![InfoSubset::all(), base, base | InfoSubset::READING_FORM | InfoSubset::SPLIT_A | InfoSubset::SYNONYM_GROUP_ID]
        } else {
            vec![InfoSubset::empty(), InfoSubset::DIC_FORM_WORD_ID | InfoSubset::SURFACE, InfoSubset::SPLIT_B | InfoSubset::WORD_STRUCTURE]
        };
        let ops = vec![
            Op::SetMode(Mode::A),
            Op::SetMode(Mode::B),
            Op::SetMode(Mode::C),
            Op::SetSubset(0),
            Op::SetSubset(1),
            Op::SetSubset(2),
            Op::Analyse(0),
            Op::Analyse(1),
            Op::Analyse(2),
            Op::Analyse(3),
            Op::Analyse(4),
            Op::Analyse(5),
            Op::Analyse(6),
            Op::Analyse(7),
            Op::Analyse(8),
            Op::Analyse(9),
            Op::Analyse(10),
            Op::AnalyseNoCollect(9),
            Op::AnalyseNoCollect(0),
            Op::AnalyseNoCollect(4),
            Op::Collect,
            Op::SplitInto(Mode::A),
            Op::Lookup("東京"),
            Op::ClearList,
        ];
        (ops, subsets)
    };
    for (spec, with_rewrite) in [(spec_user("W-user2", 2, true), true), (spec_user("W-user2-norewrite", 2, false), false)] {
        let w = Arc::new(World::build(spec).expect("world"));
        let (ops, subsets) = ops_for(with_rewrite);
        let depth = tier.pick(3, 4);
        let b = json!({"operations": ops.len(), "depth": depth, "probes": probes.len()});
        jobs.push(job(HistorySpace { world: w, ops, subsets, texts: texts.clone(), probes: probes.clone(), depth }, Strategy::Bfs, Some(tier.pick(45, 3000)), b));
    }
    drive(rep, jobs, replay)
}
