//! C05 – compile-then-load round trip preserves every dictionary field, deterministically, and
//! independently of the alignment of the loaded bytes.
//!
//! State = set of field deviations applied to a probe row of a baseline lexicon (baseline, all
//! single deviations, all pairs on different fields; triples in the thorough tier) x
//! system/user dictionary x matrix shape.  For each accepted input every field of every entry
//! is read back through the public readers and compared with the declaration.

use crate::common::evidence::{Report, Tier};
use crate::common::explore::*;
use crate::common::findings::Failure;
use crate::common::panics::catch;
use crate::common::refmodel::*;
use crate::common::worlds::*;
use serde_json::{json, Value};
use std::path::PathBuf;
use std::sync::Arc;
use sudachi::analysis::stateless_tokenizer::DictionaryAccess;
use sudachi::dic::build::DictBuilder;
use sudachi::dic::dictionary::JapaneseDictionary;
use sudachi::dic::storage::{Storage, SudachiDicData};
use sudachi::dic::word_id::WordId;

/// reference un-escaping of \uXXXX and \u{X..}
pub fn ref_unescape(s: &str) -> String {
    let cs: Vec<char> = s.chars().collect();
    let mut out = String::new();
    let mut i = 0;
    while i < cs.len() {
        if cs[i] == '\\' && i + 1 < cs.len() && cs[i + 1] == 'u' {
            // braces form
            if i + 2 < cs.len() && cs[i + 2] == '{' {
                let mut j = i + 3;
                let mut hex = String::new();
                while j < cs.len() && cs[j].is_ascii_hexdigit() && hex.len() < 6 {
                    hex.push(cs[j]);
                    j += 1;
                }
                if !hex.is_empty() && j < cs.len() && cs[j] == '}' {
                    if let Some(c) = u32::from_str_radix(&hex, 16).ok().and_then(char::from_u32) {
                        out.push(c);
                        i = j + 1;
                        continue;
                    }
                }
            } else if i + 5 < cs.len() + 0 && cs[i + 2..i + 6].iter().all(|c| c.is_ascii_hexdigit()) {
                let hex: String = cs[i + 2..i + 6].iter().collect();
                if let Some(c) = u32::from_str_radix(&hex, 16).ok().and_then(char::from_u32) {
                    out.push(c);
                    i += 6;
                    continue;
                }
            }
        }
        out.push(cs[i]);
        i += 1;
    }
    out
}

#[derive(Clone, Debug)]
pub struct Case {
    pub system: Vec<Row>,
    pub user: Vec<Row>,
    pub probe_in_user: bool,
    pub matrix: Matrix,
}

impl Case {
    /// the probe row is the last but one row: entries after it must stay readable too
    fn probe(&mut self) -> &mut Row {
        let rows = if self.probe_in_user { &mut self.user } else { &mut self.system };
        let n = rows.len();
        &mut rows[n - 2]
    }
    fn probe_index(&self) -> usize {
        (if self.probe_in_user { self.user.len() } else { self.system.len() }) - 2
    }
}

pub const P_VERB2: [&str; 6] = ["動詞", "非自立可能", "*", "*", "五段-カ行", "連用形-促音便"];

fn baseline(user: bool, matrix: Matrix) -> Case {
    let system = vec![
        Row::new("あ", 1, 1, 100, P_NOUN).reading("ア"),
        Row::new("い", 0, 1, -200, P_NOUN).reading("イ"),
        Row::new("あい", 1, 0, 300, P_PROPN).reading("アイ").splits("B", "0/1", "*").structure("0/1"),
        Row::new("𠮷", 1, 1, 32767, P_NOUN).reading("ヨシ"),
        Row::new("京都", 0, 0, -32767, P_PROPN).reading("キョウト").synonyms("1/5"),
        Row::new("行く", 1, 1, 5105, P_VERB).reading("イク"),
        Row::new("行っ", 1, 1, 5122, P_VERB2).reading("イッ").norm("行く").dic_form("5"),
        // two homographs for inline references: the first is written differently from its key and
        // read like its headword, the second is read like its key
        Row::new("ab", 1, 1, 50, P_NOUN).headword("ＡＢ").reading("ＡＢ"),
        Row::new("ab", 1, 1, 60, P_NOUN).reading("ab"),
        // ... and a third one that an inline reference cannot tell from the second (either may be meant)
        Row::new("ab", 1, 1, 70, P_NOUN).reading("ab").norm("AB3"),
        Row::new("さ", 1, 1, 700, P_NOUN).reading("サ"),
        Row::new("ん", 1, 0, 900, P_PROPN).reading("ン").norm("む").synonyms("7"),
    ];
    let mut system = system;
    if user {
        // the system dictionary of the user case has no probe row
        system.remove(10);
    }
    let user_rows = vec![
        Row::new("府", 1, 1, 2914, P_NOUN).reading("フ"),
        Row::new("府の", 1, 1, 3000, P_NOUN).reading("フノ").dic_form("U0"),
        // two parts of speech of its own: the first is also brought by the dictionary that is loaded in front of this
        // one when it is read back as user dictionary 2, the second is new there too
        Row::new("ゆ", 0, 0, 55, ["被子植物門", "双子葉植物綱", "ムクロジ目", "ミカン科", "ミカン属", "スダチ"]).reading("ユ"),
        Row::new("ゆず", 0, 0, 56, ["被子植物門", "双子葉植物綱", "ムクロジ目", "ミカン科", "ミカン属", "ユズ"]).reading("ユズ"),
        Row::new("す", 0, 0, 10, P_NOUN).reading("ス"),
        Row::new("を", 1, 1, 20, P_PROPN).reading("ヲ").norm("お").splits("C", "0/U0", "*"),
    ];
    let mut c = Case { system, user: if user { user_rows } else { vec![] }, probe_in_user: user, matrix };
    let _ = c.probe();
    c
}

fn utf16_string(units: usize, astral: bool) -> String {
    let mut s = String::new();
    let mut n = 0;
    if astral {
        while n + 2 <= units {
            s.push('𠮷');
            n += 2;
        }
    }
    while n < units {
        s.push('あ');
        n += 1;
    }
    s
}

#[derive(Clone)]
pub struct Dev {
    pub field: &'static str,
    pub name: String,
    pub apply: Arc<dyn Fn(&mut Case) + Send + Sync>,
}

fn dev(field: &'static str, name: String, f: impl Fn(&mut Case) + Send + Sync + 'static) -> Dev {
    Dev { field, name, apply: Arc::new(f) }
}

pub fn deviations() -> Vec<Dev> {
    let mut d = Vec::new();
    for units in [1usize, 126, 127, 128, 129, 255, 256] {
        for astral in [false, true] {
            if astral && units == 1 {
                continue;
            }
            let s = utf16_string(units, astral);
            let s2 = s.clone();
            d.push(dev("surface", format!("surface+headword of {} UTF-16 units{}", units, if astral { " (astral)" } else { "" }), move |c| {
                let p = c.probe();
                p.surface = s.clone();
                p.headword = s.clone();
                p.reading = s.clone();
                p.norm = s.clone();
            }));
            d.push(dev("reading", format!("reading of {} UTF-16 units{}", units, if astral { " (astral)" } else { "" }), move |c| {
                c.probe().reading = s2.clone();
            }));
        }
    }
    d.push(dev("surface", "headword differs from surface".into(), |c| {
        let p = c.probe();
        p.headword = format!("{}x", p.surface);
    }));
    d.push(dev("surface", "surface with \\u escapes".into(), |c| {
        let p = c.probe();
        p.surface = "a\\u002cb\\u{1F600}".into();
        p.headword = "a\\u002cb\\u{1F600}".into();
    }));
    // the scalar values next to the structural boundaries of UTF-8 / UTF-16 (last BMP, first astral,
    // around the surrogate gap, the last scalar), literally and escaped
    d.push(dev("reading", "reading made of boundary scalar values".into(), |c| c.probe().reading = "\u{7f}\u{80}\u{7ff}\u{800}\u{d7ff}\u{e000}\u{ffff}\u{10000}\u{10001}\u{10ffff}".into()));
    d.push(dev("norm", "normalised form made of escaped boundary scalar values".into(), |c| c.probe().norm = "\\u{ffff}\\u{10000}\\uFFFE\\u{10FFFF}".into()));
    // long strings in which every surrogate pair straddles an even unit offset (any block-wise decoder with an
    // even block size meets a pair cut in two), and single pairs across the offsets 64, 128, ... 4096
    d.push(dev("reading", "reading of one BMP unit and 700 astral characters".into(), |c| c.probe().reading = format!("あ{}", "𠮷".repeat(700))));
    d.push(dev("norm", "normalised form with astral characters across the unit offsets 64..4096".into(), |c| {
        let mut t = String::new();
        let mut units = 0usize;
        for b in [64usize, 128, 256, 512, 1024, 2048, 4096] {
            while units < b - 1 {
                t.push('い');
                units += 1;
            }
            t.push('\u{20b9f}');
            units += 2;
        }
        t.push('う');
        c.probe().norm = t;
    }));
    d.push(dev("norm", "normalised form differs".into(), |c| c.probe().norm = "別".into()));
    d.push(dev("norm", "normalised form with escape".into(), |c| c.probe().norm = "x\\u3042y".into()));
    d.push(dev("norm", "normalised form of 127 units".into(), |c| c.probe().norm = utf16_string(127, true)));
    d.push(dev("norm", "normalised form of 128 units".into(), |c| c.probe().norm = utf16_string(128, false)));
    d.push(dev("reading", "reading equal to headword".into(), |c| {
        let p = c.probe();
        p.reading = p.headword.clone();
    }));
    d.push(dev("dic_form", "dictionary form = other system word".into(), |c| c.probe().dic_form = "5".into()));
    d.push(dev("dic_form", "dictionary form = itself".into(), |c| {
        let idx = c.probe_index();
        let pu = c.probe_in_user;
        c.probe().dic_form = if pu { format!("U{}", idx) } else { format!("{}", idx) };
    }));
    d.push(dev("dic_form", "dictionary form = system word with the probe's own number".into(), |c| {
        // for a user dictionary this is a *different* word (system word k vs user word k)
        let idx = c.probe_index();
        c.probe().dic_form = format!("{}", idx);
    }));
    d.push(dev("dic_form", "dictionary form = user word (U-reference)".into(), |c| {
        if c.probe_in_user {
            c.probe().dic_form = "U0".into();
        }
    }));
    d.push(dev("split_a", "A split numeric".into(), |c| {
        let p = c.probe();
        p.mode = "C".into();
        p.split_a = "0/1".into();
    }));
    d.push(dev("split_a", "A split inline".into(), |c| {
        let p = c.probe();
        p.mode = "C".into();
        p.split_a = "あ,名詞,普通名詞,一般,*,*,*,ア/𠮷,名詞,普通名詞,一般,*,*,*,ヨシ".into();
    }));
    d.push(dev("split_a", "A split inline to a word whose headword differs from its key".into(), |c| {
        let p = c.probe();
        p.mode = "C".into();
        p.split_a = "ab,名詞,普通名詞,一般,*,*,*,ＡＢ/あ,名詞,普通名詞,一般,*,*,*,ア".into();
    }));
    d.push(dev("split_a", "A split with U-reference / mixed".into(), |c| {
        let pu = c.probe_in_user;
        let p = c.probe();
        p.mode = "C".into();
        p.split_a = if pu { "3/U0/U1".into() } else { "3/0".into() };
    }));
    d.push(dev("split_a", "A split of 127 units".into(), |c| {
        let p = c.probe();
        p.mode = "C".into();
        p.split_a = vec!["0"; 127].join("/");
    }));
    d.push(dev("split_b", "B split numeric".into(), |c| {
        let p = c.probe();
        p.mode = "C".into();
        p.split_b = "2/3".into();
    }));
    d.push(dev("split_b", "B split inline to a user word".into(), |c| {
        let pu = c.probe_in_user;
        let p = c.probe();
        p.mode = "C".into();
        p.split_b = if pu { "府,名詞,普通名詞,一般,*,*,*,フ/い,名詞,普通名詞,一般,*,*,*,イ".into() } else { "い,名詞,普通名詞,一般,*,*,*,イ/さ,名詞,普通名詞,一般,*,*,*,サ".into() };
    }));
    d.push(dev("split_b", "B split inline to the second of two homographs (read like its key)".into(), |c| {
        let p = c.probe();
        p.mode = "C".into();
        p.split_b = "ab,名詞,普通名詞,一般,*,*,*,ab/い,名詞,普通名詞,一般,*,*,*,イ".into();
    }));
    d.push(dev("structure", "word structure numeric".into(), |c| c.probe().word_structure = "1/0/4".into()));
    d.push(dev("structure", "word structure of 127 items".into(), |c| c.probe().word_structure = vec!["1"; 127].join("/")));
    d.push(dev("synonyms", "synonym ids 0".into(), |c| c.probe().synonyms = "0".into()));
    d.push(dev("synonyms", "synonym ids max".into(), |c| c.probe().synonyms = "4294967295/1".into()));
    d.push(dev("synonyms", "127 synonym ids".into(), |c| c.probe().synonyms = (0..127).map(|i| i.to_string()).collect::<Vec<_>>().join("/")));
    d.push(dev("params", "cost -32767, ids 0".into(), |c| {
        let p = c.probe();
        p.cost = -32767;
        p.left = 0;
        p.right = 0;
    }));
    d.push(dev("params", "cost 32767".into(), |c| c.probe().cost = 32767));
    d.push(dev("params", "not indexed".into(), |c| c.probe().left = -1));
    d.push(dev("pos", "new part of speech".into(), |c| c.probe().pos = pos_of(["新", "品詞", "*", "*", "*", "*"])));
    d.push(dev("pos", "part of speech with escapes and astral".into(), |c| c.probe().pos = pos_of(["\\u65b0", "𠮷\\u{20BB7}", "*", "*", "a\\u002cb", "*"])));
    d.push(dev("pos", "part of speech of 127/128 units".into(), |c| {
        let a = utf16_string(127, false);
        let b = utf16_string(128, true);
        c.probe().pos = [a, b, "*".into(), "*".into(), "*".into(), "*".into()];
    }));
    d.push(dev("matrix", "matrix 1x1".into(), |c| {
        c.matrix = Matrix::generate(1, 1, |_, _| 7);
        for r in c.system.iter_mut().chain(c.user.iter_mut()) {
            if r.left > 0 {
                r.left = 0;
            }
            r.right = 0;
        }
    }));
    d.push(dev("matrix", "matrix 2x3".into(), |c| c.matrix = Matrix::distinct(2, 3)));
    d.push(dev("matrix", "matrix 3x2".into(), |c| c.matrix = Matrix::distinct(3, 2)));
    d.push(dev("matrix", "matrix 10x10 with extreme cells".into(), |c| {
        let mut m = Matrix::distinct(10, 10);
        m.cells[9][9] = 32767;
        m.cells[0][9] = -32768;
        m.cells[9][0] = -1;
        c.matrix = m;
    }));
    d
}

pub struct RoundTrip {
    pub alignments: Vec<usize>,
    pub dir: PathBuf,
    pub devs: Vec<Dev>,
    pub max_devs: usize,
    pub user: bool,
}

/// expected resolved word id of a split unit, as reported after loading
/// the word ids a unit may resolve to: exactly one for numeric and `U` references; for an inline
/// reference every entry of the first dictionary that has a match (own dictionary before the
/// system dictionary) whose key, part of speech and reading equal the reference - entries that
/// agree in all three cannot be told apart by the reference, so any of them is "the intended one"
fn resolve_unit(case: &Case, in_user: bool, unit: &str, user_no: u32) -> Vec<u32> {
    if unit.starts_with('U') && unit[1..].chars().all(|c| c.is_ascii_digit()) {
        return unit[1..].parse::<u32>().ok().map(|n| (user_no << 28) | n).into_iter().collect();
    }
    if unit.chars().all(|c| c.is_ascii_digit()) && !unit.is_empty() {
        return unit.parse::<u32>().ok().into_iter().collect();
    }
    // inline: surface,pos*6,reading
    let f: Vec<&str> = unit.splitn(8, ',').collect();
    if f.len() != 8 {
        return vec![];
    }
    let surface = ref_unescape(f[0]);
    let pos: Vec<String> = f[1..7].iter().map(|s| ref_unescape(s)).collect();
    let reading = ref_unescape(f[7]);
    let find = |rows: &Vec<Row>, dic: u32| -> Vec<u32> {
        let mut v = Vec::new();
        for (i, r) in rows.iter().enumerate() {
            let rs = ref_unescape(&r.surface);
            let rr = ref_unescape(&r.reading);
            let rp: Vec<String> = r.pos.iter().map(|s| ref_unescape(s)).collect();
            if rs == surface && rp == pos && rr == reading {
                v.push((dic << 28) | i as u32);
            }
        }
        v
    };
    if in_user {
        let own = find(&case.user, user_no);
        if own.is_empty() {
            find(&case.system, 0)
        } else {
            own
        }
    } else {
        find(&case.system, 0)
    }
}

fn load_aligned(dir: &PathBuf, system: &[u8], users: &[Vec<u8>], misalign: usize) -> Result<JapaneseDictionary, String> {
    let leak = |b: &[u8]| -> &'static [u8] {
        // over-allocate, 8-byte aligned base, then offset by `misalign`
        let mut v: Vec<u64> = vec![0; b.len() / 8 + 3];
        let base = v.as_mut_ptr() as *mut u8;
        let slice = unsafe { std::slice::from_raw_parts_mut(base.add(misalign), b.len()) };
        slice.copy_from_slice(b);
        std::mem::forget(v);
        unsafe { std::slice::from_raw_parts(base.add(misalign), b.len()) }
    };
    let cfg = config_for(dir, &bare_plugins(&pos_of(P_NOUN)));
    let mut data = SudachiDicData::new(Storage::Borrowed(leak(system)));
    for u in users {
        data.add_user(Storage::Borrowed(leak(u)));
    }
    JapaneseDictionary::from_cfg_storage(&cfg, data).map_err(|e| format!("{}", e))
}

impl RoundTrip {
    fn case_of(&self, s: &Vec<u8>) -> Case {
        let mut c = baseline(self.user, Matrix::distinct(3, 3));
        for &i in s {
            (self.devs[i as usize].apply)(&mut c);
        }
        c
    }

    /// `user_no`: the number under which the user dictionary of the case was loaded
    fn verify(&self, case: &Case, dict: &JapaneseDictionary, ctx: &str, o: &mut Outcome, user_no: u32) {
        let lex = dict.lexicon();
        let g = dict.grammar();
        // connection matrix
        let cm = g.conn_matrix();
        if cm.num_left() != case.matrix.left || cm.num_right() != case.matrix.right {
            o.fail(Failure::new("matrix-shape", format!("{}: loaded matrix is {}x{}, declared {}x{}", ctx, cm.num_left(), cm.num_right(), case.matrix.left, case.matrix.right)));
            return;
        }
        for l in 0..case.matrix.left {
            for r in 0..case.matrix.right {
                let v = cm.cost(l as u16, r as u16) as i32;
                if v != case.matrix.cells[l][r] {
                    o.fail(Failure::new("connection-cost", format!("{}: cost({}, {}) = {} but the matrix text says {}", ctx, l, r, v, case.matrix.cells[l][r])));
                }
            }
        }
        for (dic, rows) in [(0u32, &case.system), (user_no, &case.user)] {
            for (i, row) in rows.iter().enumerate() {
                let wid = WordId::new(dic as u8, i as u32);
                let c2 = format!("{} word ({}, {}) {:?}", ctx, dic, i, row.surface.chars().take(12).collect::<String>());
                let wi = match lex.get_word_info(wid) {
                    Ok(w) => w,
                    Err(e) => {
                        o.fail(Failure::new("word-info-error", format!("{}: {}", c2, e)));
                        continue;
                    }
                };
                // an indexed entry is found under its key, with its own number
                if row.left >= 0 {
                    let key = ref_unescape(&row.surface);
                    let hit = lex.lookup(key.as_bytes(), 0).any(|e| e.end == key.len() && e.word_id == wid);
                    if !hit {
                        let got: Vec<(usize, u32)> = lex.lookup(key.as_bytes(), 0).map(|e| (e.end, e.word_id.as_raw())).collect();
                        o.fail(Failure::new("not-found-under-its-key", format!("{}: looking up the key returns {:x?}, not the entry itself ({:#x})", c2, got, wid.as_raw())));
                    }
                }
                let (l, r, c) = lex.get_word_param(wid);
                let auto_cost = dic > 0 && row.cost == -32768;
                if l as i32 != row.left || r as i32 != row.right || (!auto_cost && c as i32 != row.cost) {
                    o.fail(Failure::new("word-params", format!("{}: params ({}, {}, {}) declared ({}, {}, {})", c2, l, r, c, row.left, row.right, row.cost)));
                }
                let surface = ref_unescape(&row.surface);
                let headword = ref_unescape(&row.headword);
                let mut cmp = |name: &str, obs: &str, exp: &str| {
                    if obs != exp {
                        let short = |s: &str| -> String { if s.chars().count() > 40 { format!("{}…({} chars)", s.chars().take(40).collect::<String>(), s.chars().count()) } else { s.to_string() } };
                        o.fail(Failure::new("field-differs", format!("{}: {} = {:?}, declared {:?}", c2, name, short(obs), short(exp))));
                    }
                };
                cmp("headword", wi.surface(), &headword);
                cmp("reading", wi.reading_form(), &ref_unescape(&row.reading));
                cmp("normalized form", wi.normalized_form(), &ref_unescape(&row.norm));
                if wi.head_word_length() != surface.len() {
                    o.fail(Failure::new("field-differs", format!("{}: head word length {} but the key has {} bytes", c2, wi.head_word_length(), surface.len())));
                }
                // part of speech
                let pos: Vec<String> = row.pos.iter().map(|s| ref_unescape(s)).collect();
                let got = g.pos_list.get(wi.pos_id() as usize).cloned().unwrap_or_default();
                if got != pos {
                    o.fail(Failure::new("field-differs", format!("{}: part of speech {:?} (id {}), declared {:?}", c2, got.iter().map(|s| s.chars().take(10).collect::<String>()).collect::<Vec<_>>(), wi.pos_id(), pos.iter().map(|s| s.chars().take(10).collect::<String>()).collect::<Vec<_>>())));
                }
                // dictionary form
                let exp_df = if row.dic_form == "*" {
                    headword.clone()
                } else {
                    let (d2, idx) = if row.dic_form.starts_with('U') { (user_no, row.dic_form[1..].parse::<usize>().unwrap_or(0)) } else { (0u32, row.dic_form.parse::<usize>().unwrap_or(0)) };
                    let rows2 = if d2 != 0 { &case.user } else { &case.system };
                    rows2.get(idx).map(|r| ref_unescape(&r.headword)).unwrap_or_default()
                };
                if wi.dictionary_form() != exp_df {
                    o.fail(Failure::new("dictionary-form", format!("{}: dictionary form {:?}, declared reference {:?} -> {:?}", c2, wi.dictionary_form(), row.dic_form, exp_df)));
                }
                // splits and word structure
                for (name, decl, obs) in [("A split", &row.split_a, wi.a_unit_split()), ("B split", &row.split_b, wi.b_unit_split()), ("word structure", &row.word_structure, wi.word_structure())] {
                    let exp: Vec<Vec<u32>> = if decl == "*" || decl.is_empty() { vec![] } else { decl.split('/').map(|u| resolve_unit(case, dic != 0, u, user_no)).collect() };
                    let obs: Vec<u32> = obs.iter().map(|w| w.as_raw()).collect();
                    let ok = exp.len() == obs.len() && exp.iter().zip(obs.iter()).all(|(e, o)| e.contains(o));
                    if !ok {
                        let sh = |v: &Vec<u32>| format!("{:?}{}", v.iter().take(6).collect::<Vec<_>>(), if v.len() > 6 { format!("…({})", v.len()) } else { String::new() });
                        let she = |v: &Vec<Vec<u32>>| format!("{:?}{}", v.iter().take(6).collect::<Vec<_>>(), if v.len() > 6 { format!("…({})", v.len()) } else { String::new() });
                        o.fail(Failure::new("references-differ", format!("{}: {} resolved to {}, declared {} -> (acceptable word ids per unit) {}", c2, name, sh(&obs), decl.chars().take(60).collect::<String>(), she(&exp))));
                    }
                }
                let exp_syn: Vec<u32> = if row.synonyms == "*" || row.synonyms.is_empty() { vec![] } else { row.synonyms.split('/').filter_map(|x| x.parse().ok()).collect() };
                if wi.synonym_group_ids() != &exp_syn[..] {
                    o.fail(Failure::new("field-differs", format!("{}: synonym ids {:?}, declared {:?}", c2, wi.synonym_group_ids().iter().take(5).collect::<Vec<_>>(), exp_syn.iter().take(5).collect::<Vec<_>>())));
                }
            }
        }
    }
}

impl Space for RoundTrip {
    type State = Vec<u8>;
    fn name(&self) -> String {
        format!("roundtrip/{}", if self.user { "user-dictionary" } else { "system-dictionary" })
    }
    fn init(&self) -> Vec<Vec<u8>> {
        vec![vec![]]
    }
    fn next(&self, s: &Vec<u8>, out: &mut Vec<Vec<u8>>) {
        if s.len() >= self.max_devs {
            return;
        }
        let start = s.last().map(|&l| l as usize + 1).unwrap_or(0);
        for i in start..self.devs.len() {
            if s.iter().any(|&j| self.devs[j as usize].field == self.devs[i].field) {
                continue;
            }
            let mut n = s.clone();
            n.push(i as u8);
            out.push(n);
        }
    }
    fn check(&self, s: &Vec<u8>) -> Outcome {
        let mut o = Outcome::new();
        let case = self.case_of(s);
        let ctx = format!("[{}] deviations {:?}", if self.user { "user" } else { "system" }, s.iter().map(|&i| self.devs[i as usize].name.clone()).collect::<Vec<_>>());
        o.nontrivial = !s.is_empty();
        o.evaluations = 1;
        let matrix = case.matrix.to_text();
        let sys_csv = rows_to_csv(&case.system);
        let usr_csv = rows_to_csv(&case.user);
        let dir = self.dir.clone();
        let user = self.user;
        let r = catch(|| -> Result<(Vec<u8>, Vec<Vec<u8>>), String> {
            let sys = compile_system(&matrix, &sys_csv)?;
            let mut users = Vec::new();
            if user {
                let base = load(&dir, &bare_plugins(&pos_of(P_NOUN)), sys.clone(), vec![])?;
                users.push(compile_user(&base, &usr_csv)?);
            }
            Ok((sys, users))
        });
        let (sys, users) = match r {
            Err(p) => {
                // a panic while compiling is C06's subject; here it only means "not accepted"
                o.count("compile_panics", 1);
                let _ = p;
                return o;
            }
            Ok(Err(_)) => {
                o.count("rejected_by_compiler", 1);
                return o;
            }
            Ok(Ok(x)) => x,
        };
        // determinism: compile again on another thread with the same timestamp
        {
            let (m2, s2, u2, d2) = (matrix.clone(), sys_csv.clone(), usr_csv.clone(), dir.clone());
            let again = std::thread::spawn(move || -> Result<(Vec<u8>, Vec<Vec<u8>>), String> {
                let sys = compile_system(&m2, &s2)?;
                let mut users = Vec::new();
                if user {
                    let base = load(&d2, &bare_plugins(&pos_of(P_NOUN)), sys.clone(), vec![])?;
                    users.push(compile_user(&base, &u2)?);
                }
                Ok((sys, users))
            })
            .join();
            match again {
                Ok(Ok((s2, u2))) => {
                    if s2 != sys || u2 != users {
                        o.fail(Failure::new("not-deterministic", format!("{}: compiling the same input twice with the same timestamp gave different bytes", ctx)));
                    }
                }
                _ => o.fail(Failure::new("not-deterministic", format!("{}: second compilation failed", ctx))),
            }
        }
        // offset 1 breaks the alignment of every integer type, offset 2 only that of the 32-bit ones
        for misalign in self.alignments.iter().cloned() {
            o.evaluations += 1;
            let r = catch(|| load_aligned(&dir, &sys, &users, misalign));
            match r {
                Err(p) => o.fail(Failure::panic(&format!("{} loading at alignment offset {}", ctx, misalign), &p)),
                Ok(Err(e)) => o.fail(Failure::new("load-error", format!("{} alignment offset {}: {}", ctx, misalign, e))),
                Ok(Ok(dict)) => {
                    let c2 = format!("{} alignment offset {}", ctx, misalign);
                    match catch(|| {
                        let mut o2 = Outcome::new();
                        self.verify(&case, &dict, &c2, &mut o2, 1);
                        o2
                    }) {
                        Ok(o2) => o.failures.extend(o2.failures),
                        Err(p) => o.fail(Failure::panic(&format!("{} reading back", c2), &p)),
                    }
                    // the loaded dictionary is leaked together with its buffers (bounded: one per state)
                    std::mem::forget(dict);
                }
            }
        }
        // the route of the command-line tool and the Python binding: files named in the configuration,
        // memory-mapped by the library
        {
            o.evaluations += 1;
            let tag = format!("c05_{}", format!("{:?}", std::thread::current().id()).replace(|ch: char| !ch.is_ascii_digit(), ""));
            match catch(|| {
                let cfgp = bare_plugins(&pos_of(P_NOUN));
                load_from_files(&dir, &cfgp, &sys, &users, &tag)
            }) {
                Err(p) => o.fail(Failure::panic(&format!("{} loading from files", ctx), &p)),
                Ok(Err(e)) => o.fail(Failure::new("load-error", format!("{} from files: {}", ctx, e))),
                Ok(Ok(dict)) => {
                    let c2 = format!("{} loaded from files", ctx);
                    match catch(|| {
                        let mut o2 = Outcome::new();
                        self.verify(&case, &dict, &c2, &mut o2, 1);
                        o2
                    }) {
                        Ok(o2) => o.failures.extend(o2.failures),
                        Err(p) => o.fail(Failure::panic(&format!("{} reading back", c2), &p)),
                    }
                }
            }
        }
        // the same user dictionary loaded as the SECOND user dictionary (behind a small one that brings
        // a part of speech of its own): every reference inside it must now carry dictionary number 2
        if user && !users.is_empty() {
            o.evaluations += 1;
            let filler_csv = rows_to_csv(&[
                Row::new("ぴ", 0, 0, 77, ["被子植物門", "双子葉植物綱", "ムクロジ目", "ミカン科", "ミカン属", "スダチ"]).reading("ピ"),
                Row::new("ぴぴ", 0, 0, 78, P_NOUN).reading("ピピ").dic_form("U0").splits("C", "U0/U0", "U0/0"),
            ]);
            let r = catch(|| -> Result<JapaneseDictionary, String> {
                let base = load(&dir, &bare_plugins(&pos_of(P_NOUN)), sys.clone(), vec![])?;
                let filler = compile_user(&base, &filler_csv)?;
                load_aligned(&dir, &sys, &[filler, users[0].clone()], 0)
            });
            match r {
                Err(p) => o.fail(Failure::panic(&format!("{} loading as second user dictionary", ctx), &p)),
                Ok(Err(e)) => o.fail(Failure::new("load-error", format!("{} as second user dictionary: {}", ctx, e))),
                Ok(Ok(dict)) => {
                    let c2 = format!("{} loaded as user dictionary 2", ctx);
                    match catch(|| {
                        let mut o2 = Outcome::new();
                        self.verify(&case, &dict, &c2, &mut o2, 2);
                        o2
                    }) {
                        Ok(o2) => o.failures.extend(o2.failures),
                        Err(p) => o.fail(Failure::panic(&format!("{} reading back", c2), &p)),
                    }
                    std::mem::forget(dict);
                }
            }
        }
        o.observe(s);
        o
    }
    fn describe(&self, s: &Vec<u8>) -> Value {
        json!({"user_dictionary": self.user, "deviations": s, "names": s.iter().map(|&i| self.devs[i as usize].name.clone()).collect::<Vec<_>>()})
    }
    fn parse(&self, v: &Value) -> Option<Vec<u8>> {
        Some(v["deviations"].as_array()?.iter().filter_map(|x| x.as_u64().map(|n| n as u8)).collect())
    }
}

/// the lexicon handed to one builder in several `read_lexicon` calls, with `resolve()` calls in between (some of
/// them fail because an inline reference names a word that only a later call brings): what is finally compiled
/// and loaded must read back as declared, exactly as when the whole text is read at once
fn history_cases(dir: PathBuf, user: bool, max_cuts: usize) -> CaseSpace<(Vec<usize>, u8)> {
    let mut case = baseline(user, Matrix::distinct(3, 3));
    {
        let rows = if user { &mut case.user } else { &mut case.system };
        // forward inline references: to a word two rows below (same dictionary) and to the homograph read like its key
        rows.push(
            Row::new("んさわ", 1, 1, 800, P_NOUN)
                .reading("ンサワ")
                .splits("C", "い,名詞,普通名詞,一般,*,*,*,イ/さわ,名詞,普通名詞,一般,*,*,*,サワ", "ab,名詞,普通名詞,一般,*,*,*,ab/さわ,名詞,普通名詞,一般,*,*,*,サワ"),
        );
        rows.push(Row::new("わわ", 1, 1, 805, P_VERB).reading("ワワ"));
        rows.push(Row::new("さわ", 1, 1, 810, P_NOUN).reading("サワ"));
        rows.push(Row::new("さわわ", 0, 0, 820, P_NOUN).reading("サワワ").splits("C", "さわ,名詞,普通名詞,一般,*,*,*,サワ/わわ,動詞,一般,*,*,五段-カ行,終止形-一般,ワワ", "*"));
    }
    let n = if user { case.user.len() } else { case.system.len() };
    let mut cases: Vec<(Vec<usize>, u8)> = Vec::new();
    fn subsets(from: usize, n: usize, left: usize, cur: &mut Vec<usize>, out: &mut Vec<(Vec<usize>, u8)>) {
        for f in 0..(1u8 << cur.len()) {
            out.push((cur.clone(), f));
        }
        if left == 0 {
            return;
        }
        for a in from..n {
            cur.push(a);
            subsets(a + 1, n, left - 1, cur, out);
            cur.pop();
        }
    }
    subsets(1, n, max_cuts, &mut Vec::new(), &mut cases);
    let rt = RoundTrip { alignments: vec![0], dir: dir.clone(), devs: vec![], max_devs: 0, user };
    CaseSpace {
        label: format!("roundtrip/{}-read-in-several-calls", if user { "user-dictionary" } else { "system-dictionary" }),
        cases,
        check_fn: Box::new(move |(cuts, flags): &(Vec<usize>, u8)| {
            let mut o = Outcome::new();
            o.nontrivial = !cuts.is_empty();
            o.evaluations = 1;
            let ctx = format!("[{}] lexicon read in chunks cut before rows {:?}, resolve() after chunk(s) {:?}", if user { "user" } else { "system" }, cuts, (0..cuts.len()).filter(|i| flags & (1 << i) != 0).collect::<Vec<_>>());
            let rows = if user { &case.user } else { &case.system };
            let mut chunks: Vec<String> = Vec::new();
            let mut start = 0usize;
            for &c in cuts.iter().chain(std::iter::once(&rows.len())) {
                chunks.push(rows_to_csv(&rows[start..c]));
                start = c;
            }
            let matrix = case.matrix.to_text();
            let sys_csv = rows_to_csv(&case.system);
            let time = std::time::UNIX_EPOCH + std::time::Duration::from_secs(1_600_000_000);
            let r = catch(|| -> Result<(Vec<u8>, Vec<Vec<u8>>, u64), String> {
                let mut failed_resolves = 0u64;
                let mut feed = |b: &mut dyn FnMut(&[u8]) -> Result<(), String>, res: &mut dyn FnMut() -> bool| -> Result<(), String> {
                    for (i, ch) in chunks.iter().enumerate() {
                        b(ch.as_bytes())?;
                        if i + 1 < chunks.len() && flags & (1 << i) != 0 && !res() {
                            failed_resolves += 1;
                        }
                    }
                    Ok(())
                };
                if user {
                    let sys = compile_system(&matrix, &sys_csv)?;
                    let base = load(&dir, &bare_plugins(&pos_of(P_NOUN)), sys.clone(), vec![])?;
                    let b = std::cell::RefCell::new(DictBuilder::new_user(&base));
                    b.borrow_mut().set_compile_time(time);
                    feed(&mut |d| b.borrow_mut().read_lexicon(d).map(|_| ()).map_err(|e| format!("read_lexicon: {}", e)), &mut || b.borrow_mut().resolve().is_ok())?;
                    let mut b = b.into_inner();
                    b.resolve().map_err(|e| format!("final resolve: {}", e))?;
                    let mut out = Vec::new();
                    b.compile(&mut out).map_err(|e| format!("compile: {}", e))?;
                    Ok((sys, vec![out], failed_resolves))
                } else {
                    let b = std::cell::RefCell::new(DictBuilder::new_system());
                    b.borrow_mut().set_compile_time(time);
                    b.borrow_mut().read_conn(matrix.as_bytes()).map_err(|e| format!("read_conn: {}", e))?;
                    feed(&mut |d| b.borrow_mut().read_lexicon(d).map(|_| ()).map_err(|e| format!("read_lexicon: {}", e)), &mut || b.borrow_mut().resolve().is_ok())?;
                    let mut b = b.into_inner();
                    b.resolve().map_err(|e| format!("final resolve: {}", e))?;
                    let mut out = Vec::new();
                    b.compile(&mut out).map_err(|e| format!("compile: {}", e))?;
                    Ok((out, vec![], failed_resolves))
                }
            });
            let (sys, users, failed) = match r {
                Err(p) => {
                    o.fail(Failure::panic(&format!("{} compiling", ctx), &p));
                    return o;
                }
                Ok(Err(e)) => {
                    // what the compiler does not accept is outside the property; the uncut text (first case) must be
                    // accepted, or the job would be vacuous
                    if cuts.is_empty() {
                        o.fail(Failure::new("baseline-rejected", format!("{}: {}", ctx, e)));
                    } else {
                        o.count("rejected_when_read_in_chunks", 1);
                    }
                    return o;
                }
                Ok(Ok(x)) => x,
            };
            o.count("failed_intermediate_resolves", failed);
            match catch(|| load_aligned(&dir, &sys, &users, 0)) {
                Err(p) => o.fail(Failure::panic(&format!("{} loading", ctx), &p)),
                Ok(Err(e)) => o.fail(Failure::new("load-error", format!("{}: {}", ctx, e))),
                Ok(Ok(dict)) => {
                    match catch(|| {
                        let mut o2 = Outcome::new();
                        rt.verify(&case, &dict, &ctx, &mut o2, 1);
                        o2
                    }) {
                        Ok(o2) => o.failures.extend(o2.failures),
                        Err(p) => o.fail(Failure::panic(&format!("{} reading back", ctx), &p)),
                    }
                    std::mem::forget(dict);
                }
            }
            o.observe(&(cuts.len(), failed));
            o
        }),
        describe_fn: Box::new(|(cuts, flags): &(Vec<usize>, u8)| json!({"cuts_before_rows": cuts, "resolve_after_chunk_mask": flags})),
    }
}

pub fn main(tier: Tier, replay: Option<String>) -> i32 {
    let mut rep = Report::new("C05", "model_checking", tier);
    rep.rule = "states = sets of field deviations (on different fields) applied to the probe row / matrix of a baseline lexicon: baseline, every single deviation, every pair (and triples in the thorough tier), for a system dictionary and for a user dictionary; each accepted input is compiled twice (two threads, same timestamp; bytes must be identical), loaded at buffer alignment offsets 0, 1, 2 (thorough: and 3), and every field of every entry plus every matrix cell is read back through the public readers; non-trivial = at least one deviation".into();
    rep.assumptions = vec![
        "inputs rejected by the compiler are outside C05 and only counted".into(),
        "user-dictionary rows with cost -32768 get a computed cost by design".into(),
    ];
    let spec = spec_min("W-c05");
    let dir = write_world_files(&spec);
    let mut jobs: Vec<Box<dyn AnyJob>> = Vec::new();
    for user in [false, true] {
        let devs = deviations();
        let b = json!({"deviations": devs.len(), "max_simultaneous": tier.pick(2, 3)});
        jobs.push(job(RoundTrip { alignments: tier.pick(vec![0, 1, 2], vec![0, 1, 2, 3]), dir: dir.clone(), devs, max_devs: tier.pick(2, 3), user }, Strategy::Bfs, Some(tier.pick(50, 2400)), b));
    }
    for user in [false, true] {
        let cuts = tier.pick(2, 3);
        jobs.push(job(history_cases(dir.clone(), user, cuts), Strategy::Bfs, Some(tier.pick(50, 600)), json!({"max_cuts": cuts})));
    }
    drive(rep, jobs, replay)
}
