//! `./check --setup`: build everything the checks need besides the harness itself.

pub fn main() -> i32 {
    println!("setup: harness built");
    0
}
