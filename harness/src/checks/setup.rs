//! `./check --setup`: build everything the checks need besides the harness itself
//! (the CLI binary and the Python extension of /repo, into /verif/target-repo).

pub fn main() -> i32 {
    println!("setup: harness built");
    crate::checks::c19::setup()
}
