//! C13 – unknown-word candidates follow the character-class definition.
//!
//! Obs: the real lattice (verif hook) and the real InputBuffer; ref: the textbook MeCab model of
//! common/oovref.rs (greedy left-to-right class runs, invoke/group/length, provider order,
//! fallback).  Compared as sets per reachable lattice position.

use crate::common::evidence::{Report, Tier};
use crate::common::explore::*;
use crate::common::findings::Failure;
use crate::common::oovref::*;
use crate::common::panics::catch;
use crate::common::refmodel::*;
use crate::common::worlds::*;
use serde_json::{json, Value};
use std::collections::BTreeSet;
use std::sync::Arc;
use sudachi::analysis::stateful_tokenizer::StatefulTokenizer;
use sudachi::analysis::stateless_tokenizer::DictionaryAccess;
use sudachi::analysis::Mode;
use sudachi::dic::category_type::CategoryType;
use sudachi::input_text::InputTextIndex;
use sudachi::prelude::MorphemeList;

#[derive(Clone, Debug)]
pub enum Provider {
    MeCab,
    Simple { left: i32, right: i32, cost: i32, pos: [&'static str; 6] },
    /// regex `[a-z0-9ア漢😀]+`
    Regex { left: i32, right: i32, cost: i32, pos: [&'static str; 6], max_len: usize, relaxed: bool },
}

pub struct OovWorld {
    pub world: Arc<World>,
    pub chardef: RefCharDef,
    pub unk: Vec<UnkDef>,
    pub providers: Vec<Provider>,
    pub table: Option<RewriteTable>,
}

pub const P_REGEX: [&str; 6] = ["名詞", "普通名詞", "正規", "*", "*", "*"];

pub fn base_char_def(overrides: &[(&str, (u8, u8, u8))]) -> String {
    let mut cats: Vec<(&str, (u8, u8, u8))> = vec![
        ("DEFAULT", (0, 1, 0)),
        ("SPACE", (0, 1, 0)),
        ("KANJI", (0, 0, 2)),
        ("SYMBOL", (1, 1, 0)),
        ("NUMERIC", (1, 1, 0)),
        ("ALPHA", (1, 1, 0)),
        ("HIRAGANA", (0, 1, 2)),
        ("KATAKANA", (1, 1, 2)),
        ("KANJINUMERIC", (0, 1, 0)),
        ("USER1", (1, 0, 3)),
        // the last of the category bits
        ("USER4", (1, 1, 2)),
    ];
    for (n, v) in overrides {
        for c in cats.iter_mut() {
            if c.0 == *n {
                c.1 = *v;
            }
        }
    }
    let mut s = String::new();
    for (n, (i, g, l)) in cats {
        s.push_str(&format!("{} {} {} {}\n", n, i, g, l));
    }
    s.push_str(
        "0x0020 SPACE\n0x0030..0x0039 NUMERIC\n0x0061..0x007A ALPHA\n0x3041..0x309F HIRAGANA\n0x4E00..0x9FFF KANJI\n0x4E00 KANJINUMERIC KANJI\n\
         0x30A1..0x30FF KATAKANA\n0x30A1 NOOOVBOW\n0x30FC NOOOVBOW\n0x0300..0x036F ALL NOOOVBOW\n0x200D ALL NOOOVBOW2\n\
         0x1F3FB..0x1F3FE ALL NOOOVBOW\n0x0062 USER1\n0x6F22 USER1\n0x3042 USER1 KATAKANA\n0x4E00 USER4\n",
    );
    s
}

/// (the two definitions of KANJI and of ALPHA are deliberately not on adjacent lines: the
/// definitions of a class are all the lines naming it, wherever they stand; a comment and a blank
/// line are part of the format)
pub fn base_unk_def() -> String {
    "# unknown word definitions\n\nDEFAULT,5,5,3857,補助記号,一般,*,*,*,*\nALPHA,1,1,11633,名詞,普通名詞,一般,*,*,*\nSPACE,4,4,6056,空白,*,*,*,*,*\nKANJI,1,1,14657,名詞,普通名詞,一般,*,*,*\n\
     NUMERIC,3,3,12450,名詞,数詞,*,*,*,*\nKANJI,2,2,18181,名詞,固有名詞,地名,一般,*,*\n\
     KATAKANA,1,1,10980,名詞,普通名詞,一般,*,*,*\nALPHA,2,2,13620,名詞,固有名詞,地名,一般,*,*\nUSER1,6,6,9000,名詞,普通名詞,未知,*,*,*\nUSER4,7,7,8000,名詞,普通名詞,未知四,*,*,*\n"
        .to_string()
}

pub fn oov_rows() -> Vec<Row> {
    vec![
        Row::new("a", 1, 1, 3000, P_NOUN),
        Row::new("ab", 1, 2, 3500, P_NOUN),
        Row::new("漢", 7, 7, 4000, P_NOUN),
        Row::new("アア", 7, 7, 5000, P_NOUN),
        Row::new("1", 9, 9, 2478, P_NUM),
        Row::new("東京", 6, 6, 2816, P_PROPN),
        Row::new("株式会社", 7, 8, 4000, P_NOUN),
        // dictionary words that begin with a character which may not begin an unknown word
        Row::new("ー", 7, 7, 4500, P_NOUN),
        Row::new("ァア", 7, 7, 4600, P_NOUN),
        Row::new("\u{301}", 5, 5, 4700, P_SYM),
    ]
}

pub fn make_oov_world(name: &str, overrides: &[(&str, (u8, u8, u8))], providers: Vec<Provider>, with_input_plugin: bool) -> OovWorld {
    make_oov_world_layers(name, overrides, providers, with_input_plugin, false)
}

thread_local! {
    static EXTRA_ROWS: std::cell::RefCell<Vec<Row>> = std::cell::RefCell::new(Vec::new());
}

/// a world whose system lexicon has some more words (dictionary words of 63 / 64 / 65 characters:
/// the sizes around which the "a word of this length exists already" set stops being exact)
pub fn make_oov_world_extra(name: &str, providers: Vec<Provider>, extra: Vec<Row>) -> OovWorld {
    EXTRA_ROWS.with(|e| *e.borrow_mut() = extra);
    let w = make_oov_world_layers(name, &[], providers, false, false);
    EXTRA_ROWS.with(|e| e.borrow_mut().clear());
    w
}

/// `layered`: some of the words live in two user dictionaries instead of the system dictionary
/// (whether "a candidate exists already" must not depend on the layer that supplied it)
pub fn make_oov_world_layers(name: &str, overrides: &[(&str, (u8, u8, u8))], providers: Vec<Provider>, with_input_plugin: bool, layered: bool) -> OovWorld {
    let char_def = base_char_def(overrides);
    let unk_def = base_unk_def();
    let mut plist = Vec::new();
    for p in &providers {
        plist.push(match p {
            Provider::MeCab => mecab_oov(true),
            Provider::Simple { left, right, cost, pos } => simple_oov(*left as i64, *right as i64, *cost as i64, *pos, true),
            Provider::Regex { left, right, cost, pos, max_len, relaxed } => regex_oov("[a-z0-9ア漢😀]+", *left as i64, *right as i64, *cost as i64, *pos, *max_len, *relaxed),
        });
    }
    let mut plugins = json!({ "oovProviderPlugin": plist });
    let rewrite_def = "ｶ カ\n".to_string();
    if with_input_plugin {
        plugins["inputTextPlugin"] = json!([default_input_text()]);
    }
    let spec = WorldSpec {
        name: name.to_string(),
        char_def: char_def.clone(),
        unk_def: unk_def.clone(),
        rewrite_def: rewrite_def.clone(),
        matrix: Matrix::distinct(10, 10),
        system: if layered {
            oov_rows().into_iter().filter(|r| !["ab", "アア", "1", "漢"].contains(&r.surface.as_str())).collect()
        } else {
            let mut v = oov_rows();
            EXTRA_ROWS.with(|e| v.extend(e.borrow().iter().cloned()));
            v
        },
        users: if layered {
            vec![vec![Row::new("ab", 1, 2, 3500, P_NOUN), Row::new("1", 9, 9, 2478, P_NUM)], vec![Row::new("アア", 7, 7, 5000, P_NOUN), Row::new("漢", 7, 7, 4000, P_NOUN)]]
        } else {
            vec![]
        },
        plugins,
        user_against_loaded: false,
    };
    let world = Arc::new(World::build(spec).unwrap_or_else(|e| panic!("world {}: {}", name, e)));
    OovWorld {
        world,
        chardef: RefCharDef::parse(&char_def),
        unk: parse_unk(&unk_def),
        providers,
        table: if with_input_plugin { Some(RewriteTable::parse(&rewrite_def)) } else { None },
    }
}

pub struct OovSpace {
    pub label: String,
    pub worlds: Vec<OovWorld>,
    pub alpha: Vec<Sym>,
    pub bounds: TreeBounds,
}

fn simple_len(starts: &[bool], offset: usize) -> usize {
    for i in offset + 1..starts.len() {
        if starts[i] {
            return i - offset;
        }
    }
    starts.len() - offset
}

impl OovSpace {
    fn check_world(&self, w: &OovWorld, text: &str, o: &mut Outcome) {
        let dict = &w.world.dict;
        let wname = w.world.name();
        o.evaluations += 1;
        // ---- observation
        let r = catch(|| {
            let mut tok = StatefulTokenizer::new(dict.clone(), Mode::C);
            // the tokenizer and its buffers are used the usual way: reused.  Two earlier texts with
            // long class runs (collected, so that both internal buffers have been through them)
            {
                let mut warm = MorphemeList::empty(dict.clone());
                for wtext in ["zzzzzz漢漢漢アアア", "zzzzzz漢漢漢アアア", "111"] {
                    tok.reset().push_str(wtext);
                    if tok.do_tokenize().is_ok() {
                        let _ = warm.collect_results(&mut tok);
                    }
                }
            }
            tok.reset().push_str(text);
            let res = tok.do_tokenize().map_err(|e| classify_err(&e));
            let buf = tok.verif_input();
            let n = buf.current_chars().len();
            let cur = buf.current().to_string();
            let (classes, conts, bows) = if res.is_ok() || n > 0 {
                let mut cl = Vec::new();
                let mut co = Vec::new();
                let mut bo = Vec::new();
                if !cur.is_empty() {
                    for i in 0..n {
                        cl.push(buf.cat_at_char(i));
                        co.push(buf.cat_continuous_len(i));
                        bo.push(buf.can_bow(buf.to_curr_byte_idx(i)));
                    }
                }
                (cl, co, bo)
            } else {
                (vec![], vec![], vec![])
            };
            let lat = tok.verif_lattice();
            let toks = match &res {
                Ok(()) => {
                    let mut list = MorphemeList::empty(dict.clone());
                    list.collect_results(&mut tok).map(|_| toks_of(&list)).map_err(|e| classify_err(&e))
                }
                Err(e) => Err(e.clone()),
            };
            (cur, classes, conts, bows, lat, toks)
        });
        let (cur, classes, conts, bows, lat, toks) = match r {
            Err(p) => {
                o.fail(Failure::panic(&format!("{} {:?}", wname, text), &p));
                return;
            }
            Ok(x) => x,
        };
        if cur.is_empty() {
            return;
        }
        let chars: Vec<char> = cur.chars().collect();
        let n = chars.len();
        if let Some(t) = &w.table {
            let exp = t.normalize(text);
            if exp != cur {
                // C07's business; candidates are defined on the normalised text as observed
                o.count("normalised_text_differs_from_c07_ref", 1);
            }
        }
        // ---- reference classes / runs / word starts
        let rclasses: Vec<CategoryType> = chars.iter().map(|&c| w.chardef.classes(c)).collect();
        if rclasses != classes {
            o.fail(Failure::new("classes-differ", format!("[{}] {:?}: classes {:?}, reference {:?}", wname, cur, classes, rclasses)));
            return;
        }
        let rruns = run_lengths(&rclasses);
        if rruns != conts {
            o.fail(Failure::new(
                "class-run-differs",
                format!("[{}] {:?} ({}): class-run lengths {:?}, reference (greedy left-to-right) {:?}", wname, cur, crate::checks::c07::esc(&cur), conts, rruns),
            ));
        }
        let rstarts = word_starts(&rclasses);
        if rstarts != bows {
            o.fail(Failure::new("word-starts-differ", format!("[{}] {:?}: can_bow {:?}, reference {:?}", wname, cur, bows, rstarts)));
        }
        if rclasses.iter().any(|c| c.count() > 1) {
            o.nontrivial = true;
        }
        // ---- candidates per reachable position
        let grammar = dict.grammar();
        let mut by_begin: Vec<Vec<&sudachi::verif::VerifNode>> = vec![Vec::new(); n + 1];
        for row in &lat.ends {
            for nd in row {
                if nd.begin <= n {
                    by_begin[nd.begin].push(nd);
                }
            }
        }
        let mut reachable = vec![false; n + 1];
        reachable[0] = true;
        let failed_at: Option<usize> = if toks.is_err() { Some(0) } else { None };
        let _ = failed_at;
        for p in 0..n {
            if !reachable[p] {
                if !by_begin[p].is_empty() {
                    o.fail(Failure::new("node-at-unreachable-position", format!("[{}] {:?}: nodes begin at unreachable position {}", wname, cur, p)));
                }
                continue;
            }
            let mut dict_lengths: BTreeSet<usize> = BTreeSet::new();
            let mut obs: BTreeSet<Cand> = BTreeSet::new();
            for nd in &by_begin[p] {
                reachable[nd.end.min(n)] = true;
                let is_oov = (nd.word_id >> 28) == 0xf;
                if is_oov {
                    let pos_id = (nd.word_id & 0x0fff_ffff) as u16;
                    obs.insert(Cand {
                        begin: nd.begin,
                        end: nd.end,
                        left: nd.left_id as i32,
                        right: nd.right_id as i32,
                        cost: nd.cost as i32,
                        pos: grammar.pos_components(pos_id).to_vec(),
                    });
                } else {
                    dict_lengths.insert(nd.end - nd.begin);
                }
            }
            // reference
            let mut created: BTreeSet<usize> = dict_lengths.clone();
            let mut exp: BTreeSet<Cand> = BTreeSet::new();
            let provide = |prov: &Provider, created: &BTreeSet<usize>| -> Vec<Cand> {
                match prov {
                    Provider::MeCab => mecab_candidates(&w.chardef, &w.unk, &rclasses, &rruns, p, !created.is_empty()),
                    Provider::Simple { left, right, cost, pos } => {
                        if !created.is_empty() {
                            vec![]
                        } else {
                            vec![Cand { begin: p, end: p + simple_len(&rstarts, p), left: *left, right: *right, cost: *cost, pos: pos.iter().map(|s| s.to_string()).collect() }]
                        }
                    }
                    Provider::Regex { left, right, cost, pos, max_len, relaxed } => {
                        if !*relaxed && p > 0 && rruns[p - 1] == rruns[p] + 1 {
                            return vec![];
                        }
                        let lim = n.min(p + *max_len);
                        let mut e = p;
                        // the configured expression is [a-z0-9ア漢😀]+ : one-, three- and four-byte characters
                        while e < lim && (chars[e].is_ascii_lowercase() || chars[e].is_ascii_digit() || "ア漢😀".contains(chars[e])) {
                            e += 1;
                        }
                        if e == p || created.contains(&(e - p)) {
                            vec![]
                        } else {
                            vec![Cand { begin: p, end: e, left: *left, right: *right, cost: *cost, pos: pos.iter().map(|s| s.to_string()).collect() }]
                        }
                    }
                }
            };
            if !rclasses[p].intersects(CategoryType::NOOOVBOW | CategoryType::NOOOVBOW2) {
                for prov in &w.providers {
                    for c in provide(prov, &created) {
                        created.insert(c.end - c.begin);
                        exp.insert(c);
                    }
                }
            }
            if created.is_empty() {
                for c in provide(w.providers.last().unwrap(), &created) {
                    created.insert(c.end - c.begin);
                    exp.insert(c);
                }
            }
            if obs != exp {
                // after an analysis error the lattice is only built up to the failing position
                let at_failure = toks.is_err() && obs.is_empty() && created.is_empty();
                if !at_failure {
                    o.fail(Failure::new(
                        "oov-candidates-differ",
                        format!(
                            "[{}] text {:?} ({}) position {}: candidates {:?}, reference {:?}",
                            wname,
                            cur,
                            crate::checks::c07::esc(&cur),
                            p,
                            obs.iter().map(|c| (c.end, c.left, c.cost)).collect::<Vec<_>>(),
                            exp.iter().map(|c| (c.end, c.left, c.cost)).collect::<Vec<_>>()
                        ),
                    ));
                }
            }
            if created.is_empty() {
                // no candidate at a reachable position
                if matches!(w.providers.last(), Some(Provider::Simple { .. })) {
                    o.fail(Failure::new("no-candidate", format!("[{}] {:?}: reachable position {} has no candidate", wname, cur, p)));
                }
                break;
            }
            o.observe(&obs);
        }
        // ---- morphemes
        match toks {
            Err(e) => {
                if matches!(w.providers.last(), Some(Provider::Simple { .. })) {
                    o.fail(Failure::new("analysis-error", format!("[{}] {:?}: {:?}", wname, text, e)));
                } else {
                    o.count("errors_without_fallback", 1);
                }
            }
            Ok(toks) => {
                // map original byte ranges to the normalised text through character counts is
                // only needed for forms: use the lattice path (char offsets in normalised text)
                let mut pos_c = 0usize;
                for t in &toks {
                    if t.is_oov != ((t.word_id >> 28) == 0xf) {
                        o.fail(Failure::new("is-oov-flag", format!("[{}] {:?}: token {:?}", wname, text, t)));
                    }
                    // find this token's node: OOV tokens of the best path keep their lattice range
                    if t.is_oov {
                        if t.dic_id != -1 {
                            o.fail(Failure::new("oov-dictionary-id", format!("[{}] {:?}: OOV token reports dictionary {}", wname, text, t.dic_id)));
                        }
                        // configured POS: must be one of the POS of a candidate with this length at pos_c
                        let len_c = t.normalized.chars().count();
                        let cands: Vec<Vec<String>> = by_begin
                            .get(pos_c)
                            .map(|v| v.iter().filter(|nd| (nd.word_id >> 28) == 0xf && nd.end - nd.begin == len_c).map(|nd| grammar.pos_components((nd.word_id & 0x0fff_ffff) as u16).to_vec()).collect())
                            .unwrap_or_default();
                        if !cands.contains(&t.pos) {
                            o.fail(Failure::new("oov-pos", format!("[{}] {:?}: OOV token {:?} at char {} has POS {:?}, candidates there have {:?}", wname, text, t.surface, pos_c, t.pos, cands)));
                        }
                        let slice: String = chars.iter().skip(pos_c).take(len_c).collect();
                        if t.normalized != slice || t.dictionary != slice {
                            o.fail(Failure::new("oov-forms", format!("[{}] {:?}: OOV token {:?} has normalized {:?} dictionary {:?}, normalised text slice is {:?}", wname, text, t.surface, t.normalized, t.dictionary, slice)));
                        }
                        pos_c += len_c;
                    } else {
                        pos_c += t.head_word_length_chars(&chars, pos_c);
                    }
                }
            }
        }
    }
}

trait HeadLen {
    fn head_word_length_chars(&self, chars: &[char], from: usize) -> usize;
}
impl HeadLen for Tok {
    /// number of characters of the normalised text covered by a dictionary token
    fn head_word_length_chars(&self, chars: &[char], from: usize) -> usize {
        let mut bytes = 0;
        let mut n = 0;
        while from + n < chars.len() && bytes < self.head_word_length {
            bytes += chars[from + n].len_utf8();
            n += 1;
        }
        n
    }
}

impl Space for OovSpace {
    type State = Vec<u8>;
    fn name(&self) -> String {
        self.label.clone()
    }
    fn init(&self) -> Vec<Vec<u8>> {
        vec![vec![]]
    }
    fn next(&self, s: &Vec<u8>, out: &mut Vec<Vec<u8>>) {
        tree_next(&self.alpha, &self.bounds, s, out)
    }
    fn check(&self, s: &Vec<u8>) -> Outcome {
        let mut o = Outcome::new();
        let text = tree_text(&self.alpha, s);
        for w in &self.worlds {
            self.check_world(w, &text, &mut o);
        }
        o
    }
    fn describe(&self, s: &Vec<u8>) -> Value {
        json!({"symbols": s, "text": tree_text(&self.alpha, s), "worlds": self.worlds.iter().map(|w| w.world.name().to_string()).collect::<Vec<_>>()})
    }
    fn parse(&self, v: &Value) -> Option<Vec<u8>> {
        Some(v["symbols"].as_array()?.iter().filter_map(|x| x.as_u64().map(|n| n as u8)).collect())
    }
}

pub fn oov_alphabet() -> Vec<Sym> {
    syms(&["a", "b", "漢", "ア"], &["ァ", "1", "\u{301}", "\u{200d}", "😀", "🏻", " ", "一", "あ", "ー", "z"])
}

pub fn main(tier: Tier, replay: Option<String>) -> i32 {
    let mut rep = Report::new("C13", "model_checking", tier);
    rep.rule = "states = all strings within the bound over the OOV trigger alphabet; each is analysed by the real tokenizer in every listed world (flag variants of one class at a time, provider orders); per reachable lattice position the set of OOV nodes (begin,end,ids,cost,POS) must equal the reference set; class runs, word starts and OOV morpheme fields are compared too; non-trivial = a character with more than one class (incl. NOOOVBOW flags) occurs".into();
    rep.assumptions = vec![
        "dictionary nodes at a position are taken from the observed lattice (their correctness is C04/C02's subject)".into(),
        "the regex provider is exercised with the pattern [a-z0-9ア漢😀]+, whose leftmost-longest prefix match is computed by hand in the reference".into(),
    ];
    let simple = Provider::Simple { left: 5, right: 5, cost: 3857, pos: P_SYM };
    let mut jobs: Vec<Box<dyn AnyJob>> = Vec::new();
    // flag variants, one class at a time
    let classes = tier.pick(vec!["ALPHA", "KANJI", "KATAKANA"], vec!["ALPHA", "KANJI", "KATAKANA", "DEFAULT", "USER1", "NUMERIC"]);
    let lens: Vec<u8> = tier.pick(vec![0, 2], vec![0, 1, 2, 3]);
    for cls in classes {
        let mut worlds = Vec::new();
        for invoke in [0u8, 1] {
            for group in [0u8, 1] {
                for &len in &lens {
                    worlds.push(make_oov_world(
                        &format!("W-oov-{}-{}{}{}", cls, invoke, group, len),
                        &[(cls, (invoke, group, len))],
                        vec![Provider::MeCab, simple.clone()],
                        false,
                    ));
                }
            }
        }
        let bounds = tier.pick(TreeBounds { full_len: 3, ext_len: 5, max_special: 1 }, TreeBounds { full_len: 3, ext_len: 6, max_special: 2 });
        let b = json!({"tree": bounds.to_json(), "worlds": worlds.len()});
        jobs.push(job(OovSpace { label: format!("W-oov/flags-of-{}", cls), worlds, alpha: oov_alphabet(), bounds }, Strategy::Dfs, Some(tier.pick(40, 1500)), b));
    }
    // provider orders
    {
        let rx = |relaxed: bool, max_len: usize| Provider::Regex { left: 2, right: 2, cost: 7000, pos: P_REGEX, max_len, relaxed };
        let worlds = vec![
            make_oov_world("W-oov-simple-only", &[], vec![simple.clone()], false),
            make_oov_world("W-oov-mecab-only", &[], vec![Provider::MeCab], false),
            make_oov_world("W-oov-regex-strict", &[], vec![rx(false, 32), Provider::MeCab, simple.clone()], false),
            make_oov_world("W-oov-regex-relaxed", &[], vec![rx(true, 3), simple.clone()], false),
            make_oov_world("W-oov-simple-then-mecab", &[], vec![simple.clone(), Provider::MeCab], false),
            make_oov_world("W-oov-normalised", &[], vec![Provider::MeCab, simple.clone()], true),
            make_oov_world_layers("W-oov-user-layers-mecab", &[], vec![Provider::MeCab, simple.clone()], false, true),
            make_oov_world_layers("W-oov-user-layers-simple", &[], vec![simple.clone()], false, true),
        ];
        let bounds = tier.pick(TreeBounds { full_len: 3, ext_len: 6, max_special: 1 }, TreeBounds { full_len: 4, ext_len: 7, max_special: 2 });
        let b = json!({"tree": bounds.to_json(), "worlds": worlds.len()});
        let mut alpha = oov_alphabet();
        alpha.push(Sym { text: "ｶ".into(), special: true });
        alpha.push(Sym { text: "Ａ".into(), special: true });
        jobs.push(job(OovSpace { label: "W-oov/provider-orders".into(), worlds, alpha, bounds }, Strategy::Dfs, Some(tier.pick(40, 1500)), b));
    }
    // runs longer than 64 characters (created-words bitset saturates)
    {
        let w = make_oov_world_extra("W-oov-long-runs", vec![Provider::Regex { left: 2, right: 2, cost: 7000, pos: P_REGEX, max_len: 100, relaxed: true }, Provider::MeCab, simple.clone()], vec![Row::new(&"z".repeat(63), 1, 1, 3000, P_NOUN), Row::new(&"z".repeat(64), 1, 1, 3000, P_NOUN), Row::new(&"z".repeat(65), 1, 1, 3000, P_NOUN), Row::new(&"ア".repeat(64), 1, 1, 3000, P_NOUN)]);
        let mut texts = Vec::new();
        for n in [62usize, 63, 64, 65, 66, 100, 130] {
            for c in ["z", "ア", "漢", "1"] {
                texts.push(c.repeat(n));
                texts.push(format!("{}{}", c.repeat(n), "漢"));
                texts.push(format!("{}{}", "a", c.repeat(n)));
            }
        }
        let space = OovSpace { label: "W-oov/long-runs".into(), worlds: vec![w], alpha: vec![], bounds: TreeBounds::full(0) };
        let space = Arc::new(space);
        let sp2 = space.clone();
        jobs.push(job(
            CaseSpace {
                label: "W-oov/long-runs".into(),
                cases: texts,
                check_fn: Box::new(move |t: &String| {
                    let mut o = Outcome::new();
                    sp2.check_world(&sp2.worlds[0], t, &mut o);
                    o
                }),
                describe_fn: Box::new(|t: &String| json!({"text_len_chars": t.chars().count(), "first": t.chars().next().map(|c| c.to_string()), "last": t.chars().last().map(|c| c.to_string())})),
            },
            Strategy::Bfs,
            Some(60),
            json!({"run_lengths": [62, 63, 64, 65, 66, 100, 130]}),
        ));
    }
    drive(rep, jobs, replay)
}
