//! C09 – modes A and B refine mode C with exactly the dictionary's split units.

use crate::checks::c01::{self, TextTree};
use crate::common::evidence::{Report, Tier};
use crate::common::explore::*;
use crate::common::findings::Failure;
use crate::common::panics::catch;
use crate::common::refmodel::*;
use crate::common::worlds::*;
use serde_json::Value;
use std::sync::Arc;
use sudachi::analysis::Mode;
use sudachi::prelude::MorphemeList;

/// declared units of a row as (dictionary number as reported after loading, word number)
pub fn declared_units(world: &World, dic: usize, decl: &str) -> Option<Vec<u32>> {
    if decl == "*" || decl.is_empty() {
        return Some(vec![]);
    }
    let mut out = Vec::new();
    for unit in decl.split('/') {
        if unit.starts_with('U') && unit.len() > 1 && unit[1..].chars().all(|c| c.is_ascii_digit()) {
            let n: u32 = unit[1..].parse().ok()?;
            out.push(((dic as u32) << 28) | n);
        } else if !unit.is_empty() && unit.chars().all(|c| c.is_ascii_digit()) {
            out.push(unit.parse().ok()?);
        } else {
            let f: Vec<&str> = unit.splitn(8, ',').collect();
            if f.len() != 8 {
                return None;
            }
            let find = |rows: &Vec<Row>, d: usize| -> Option<u32> {
                rows.iter().position(|r| r.surface == f[0] && r.pos.iter().map(|s| s.as_str()).collect::<Vec<_>>() == f[1..7].to_vec() && r.reading == f[7]).map(|i| ((d as u32) << 28) | i as u32)
            };
            let r = if dic > 0 { find(&world.spec.users[dic - 1], dic).or_else(|| find(&world.spec.system, 0)) } else { find(&world.spec.system, 0) };
            out.push(r?);
        }
    }
    Some(out)
}

fn row_of(world: &World, wid: u32) -> Option<(usize, &Row)> {
    let d = (wid >> 28) as usize;
    let i = (wid & 0x0fff_ffff) as usize;
    if d == 0 {
        world.spec.system.get(i).map(|r| (0, r))
    } else if d <= world.spec.users.len() {
        world.spec.users[d - 1].get(i).map(|r| (d, r))
    } else {
        None
    }
}

fn same_token(a: &Tok, b: &Tok) -> bool {
    a.begin == b.begin && a.end == b.end && a.word_id == b.word_id && a.surface == b.surface && a.pos == b.pos && a.normalized == b.normalized && a.dictionary == b.dictionary && a.reading == b.reading && a.begin_c == b.begin_c && a.end_c == b.end_c && a.synonyms == b.synonyms
}

pub fn c09_oracle(t: &TextTree, text: &str) -> Outcome {
    let mut o = Outcome::new();
    let dict = &t.world.dict;
    let w = &t.world;
    o.evaluations = 3;
    let r = catch(|| {
        let lc = analyze_list(dict, Mode::C, None, text)?;
        let la = analyze_list(dict, Mode::A, None, text)?;
        let lb = analyze_list(dict, Mode::B, None, text)?;
        let tc = toks_of(&lc);
        let mut on_demand: Vec<[(bool, Vec<Tok>); 2]> = Vec::new();
        for i in 0..lc.len() {
            let mut pair: [(bool, Vec<Tok>); 2] = [(false, vec![]), (false, vec![])];
            for (k, sm) in [Mode::A, Mode::B].iter().enumerate() {
                let mut out = MorphemeList::empty(dict.clone());
                let did = lc.get(i).split_into(*sm, &mut out).map_err(|e| classify_err(&e))?;
                pair[k] = (did, toks_of(&out));
            }
            on_demand.push(pair);
        }
        Ok::<_, AErr>((tc, toks_of(&la), toks_of(&lb), on_demand))
    });
    let (tc, ta, tb, on_demand) = match r {
        Err(p) => {
            o.fail(Failure::panic(&format!("{} {:?}", w.name(), text), &p));
            return o;
        }
        Ok(Err(_)) => {
            o.count("rejected", 1);
            return o;
        }
        Ok(Ok(x)) => x,
    };
    // the split API on the result of a tokenizer whose mode went A -> B -> C (a per-call override and
    // its restoration) answers like the one of a tokenizer created in C
    {
        o.evaluations += 1;
        let r = catch(|| {
            let mut tok = sudachi::analysis::stateful_tokenizer::StatefulTokenizer::new(dict.clone(), Mode::A);
            tok.set_mode(Mode::B);
            tok.set_mode(Mode::C);
            tok.reset().push_str(text);
            tok.do_tokenize().map_err(|e| classify_err(&e))?;
            let mut l = MorphemeList::empty(dict.clone());
            l.collect_results(&mut tok).map_err(|e| classify_err(&e))?;
            let mut v: Vec<[(bool, Vec<Tok>); 2]> = Vec::new();
            for i in 0..l.len() {
                let mut pair: [(bool, Vec<Tok>); 2] = [(false, vec![]), (false, vec![])];
                for (k, sm) in [Mode::A, Mode::B].iter().enumerate() {
                    let mut out = MorphemeList::empty(dict.clone());
                    let did = l.get(i).split_into(*sm, &mut out).map_err(|e| classify_err(&e))?;
                    pair[k] = (did, toks_of(&out));
                }
                v.push(pair);
            }
            Ok::<_, AErr>(v)
        });
        match r {
            Err(p) => o.fail(Failure::panic(&format!("{} {:?} split API after mode changes", w.name(), text), &p)),
            Ok(Err(e)) => o.fail(Failure::new("error-after-mode-changes", format!("[{}] {:?}: {:?}", w.name(), text, e))),
            Ok(Ok(v)) => {
                let brief = |x: &Vec<[(bool, Vec<Tok>); 2]>| -> Vec<Vec<(bool, Vec<(usize, usize, u32)>)>> { x.iter().map(|p| p.iter().map(|(d, t)| (*d, t.iter().map(|t| (t.begin, t.end, t.word_id)).collect())).collect()).collect() };
                if brief(&v) != brief(&on_demand) {
                    o.fail(Failure::new("split-api-depends-on-mode-history", format!("[{}] {:?}: split_into on the result of a tokenizer whose mode went A -> B -> C gives {:x?}, on one created in C {:x?}", w.name(), text, brief(&v), brief(&on_demand))));
                }
            }
        }
    }
    let bc = boundaries(&tc);
    // a tokenizer that was created in mode C, restricted to the fields the path-rewrite plugins read,
    // and switched to A / B afterwards (what the Python binding does for a per-call mode) must
    // split exactly like one created in that mode
    // (without path-rewrite plugins nothing but the surface - or nothing at all - needs to be loaded)
    use sudachi::dic::subset::InfoSubset;
    let has_rewrite = w.spec.plugins.get("pathRewritePlugin").map(|p| p.as_array().map(|a| !a.is_empty()).unwrap_or(false)).unwrap_or(false);
    let narrow: Vec<InfoSubset> = if has_rewrite { vec![InfoSubset::SURFACE | InfoSubset::POS_ID | InfoSubset::NORMALIZED_FORM] } else { vec![InfoSubset::SURFACE, InfoSubset::empty()] };
    for (mode, direct, subset) in narrow.iter().flat_map(|s| [(Mode::A, &ta, *s), (Mode::B, &tb, *s)]) {
        o.evaluations += 1;
        let r = catch(|| {
            let mut tok = sudachi::analysis::stateful_tokenizer::StatefulTokenizer::new(dict.clone(), Mode::C);
            tok.set_subset(subset);
            tok.set_mode(mode);
            tok.reset().push_str(text);
            tok.do_tokenize().map_err(|e| classify_err(&e))?;
            let mut l = MorphemeList::empty(dict.clone());
            l.collect_results(&mut tok).map_err(|e| classify_err(&e))?;
            Ok::<_, AErr>(toks_of(&l))
        });
        match r {
            Err(p) => o.fail(Failure::panic(&format!("{} {:?} mode set after a field subset", w.name(), text), &p)),
            Ok(Err(e)) => o.fail(Failure::new("error-with-mode-set-later", format!("[{}] {:?}: {:?}", w.name(), text, e))),
            Ok(Ok(t2)) => {
                let a: Vec<(usize, usize, u32)> = t2.iter().map(|t| (t.begin, t.end, t.word_id)).collect();
                let b: Vec<(usize, usize, u32)> = direct.iter().map(|t| (t.begin, t.end, t.word_id)).collect();
                if a != b {
                    o.fail(Failure::new("mode-set-later-splits-differently", format!("[{}] {:?}: a tokenizer switched to mode {} after set_subset({:?}) gives {:x?}, one created in that mode {:x?}", w.name(), text, mode_name(mode), subset, a, b)));
                }
            }
        }
    }
    for (mname, tm, k) in [("A", &ta, 0usize), ("B", &tb, 1usize)] {
        let ctx = format!("[{} mode {}] {:?}", w.name(), mname, text);
        let bm = boundaries(tm);
        for b in &bc {
            if !bm.contains(b) {
                o.fail(Failure::new("c-boundary-missing", format!("{}: boundary {} of mode C is not a boundary ({:?} vs C {:?})", ctx, b, bm, bc)));
            }
        }
        // walk both sequences
        let mut j = 0usize;
        for (i, c) in tc.iter().enumerate() {
            let row = if c.is_oov || c.word_id == 0xffff_ffff { None } else { row_of(w, c.word_id) };
            let decl = row.map(|(d, r)| (d, if k == 0 { r.split_a.as_str() } else { r.split_b.as_str() }));
            let units: Vec<u32> = match decl {
                Some((d, s)) => declared_units(w, d, s).unwrap_or_default(),
                None => vec![],
            };
            // merged tokens (path rewriting) carry no splits
            let merged = !c.is_oov && row.map(|(_, r)| r.surface != c.wi_surface && r.headword != c.wi_surface).unwrap_or(true);
            let units = if merged { vec![] } else { units };
            let (did, sub) = &on_demand[i][k];
            if units.len() >= 2 {
                o.nontrivial = true;
                o.count("split_tokens", 1);
                if j + units.len() > tm.len() {
                    o.fail(Failure::new("sub-tokens-missing", format!("{}: token {} {:?} declares {} units but only {} tokens remain", ctx, i, c.surface, units.len(), tm.len() - j)));
                    return o;
                }
                let part = &tm[j..j + units.len()];
                j += units.len();
                let ids: Vec<u32> = part.iter().map(|t| t.word_id).collect();
                if ids != units {
                    o.fail(Failure::new("units-differ", format!("{}: token {} {:?} (word {:#x}) is split into words {:x?}, the dictionary declares {:x?}", ctx, i, c.surface, c.word_id, ids, units)));
                }
                // when the declared units concatenate to the word's key, every unit covers exactly
                // the text of its own key
                let unit_keys: Vec<Option<String>> = units.iter().map(|u| row_of(w, *u).map(|(_, r)| r.surface.clone())).collect();
                let parent_key = row.map(|(_, r)| r.surface.clone()).unwrap_or_default();
                // (only for tokens whose original text is not rewritten by normalisation: inside an
                // expansion such as ㍿ -> 株式会社 a unit boundary has no position of its own in the original)
                let untouched = normalized_text(dict, &c.surface).map(|n| n == c.surface).unwrap_or(false);
                if untouched && unit_keys.iter().all(|k| k.is_some()) && unit_keys.iter().map(|k| k.clone().unwrap()).collect::<String>() == parent_key {
                    for (p, k) in part.iter().zip(unit_keys.iter()) {
                        let k = k.as_ref().unwrap();
                        if let Ok(n) = normalized_text(dict, &p.surface) {
                            if &n != k {
                                o.fail(Failure::new("unit-range-differs", format!("{}: unit {:#x} of token {} {:?} covers {:?} (normalised {:?}), its key is {:?}", ctx, p.word_id, i, c.surface, p.surface, n, k)));
                            }
                        }
                    }
                }
                if part[0].begin != c.begin || part[part.len() - 1].end != c.end || part.windows(2).any(|p| p[0].end != p[1].begin) {
                    o.fail(Failure::new("units-do-not-tile-parent", format!("{}: token {} {:?} {}..{} is split into ranges {:?}", ctx, i, c.surface, c.begin, c.end, part.iter().map(|t| (t.begin, t.end)).collect::<Vec<_>>())));
                }
                // on-demand split == direct tokenisation
                if !*did {
                    o.fail(Failure::new("split-into-false", format!("{}: split_into reports no split for token {} {:?} which declares {} units", ctx, i, c.surface, units.len())));
                } else if sub.len() != part.len() || !sub.iter().zip(part.iter()).all(|(a, b)| same_token(a, b)) {
                    o.fail(Failure::new(
                        "on-demand-split-differs",
                        format!("{}: split_into of token {} {:?} gives {:?}, tokenising directly gives {:?}", ctx, i, c.surface, sub.iter().map(|t| (t.begin, t.end, t.word_id, t.surface.clone())).collect::<Vec<_>>(), part.iter().map(|t| (t.begin, t.end, t.word_id, t.surface.clone())).collect::<Vec<_>>()),
                    ));
                }
            } else {
                if j >= tm.len() {
                    o.fail(Failure::new("sub-tokens-missing", format!("{}: token {} has no counterpart", ctx, i)));
                    return o;
                }
                let a = &tm[j];
                j += 1;
                // unchanged (the cumulative cost is part of the token too)
                if !same_token(a, c) || a.total_cost != c.total_cost {
                    o.fail(Failure::new("unsplit-token-changed", format!("{}: token {} without declared splits differs from mode C: {:?} vs {:?}", ctx, i, (a.begin, a.end, a.word_id, &a.surface, &a.normalized), (c.begin, c.end, c.word_id, &c.surface, &c.normalized))));
                }
                if units.is_empty() && (*did || !sub.is_empty()) {
                    o.fail(Failure::new("split-into-true-without-units", format!("{}: split_into reports a split ({} tokens) for token {} {:?} which declares none", ctx, sub.len(), i, c.surface)));
                }
            }
        }
        if j != tm.len() {
            o.fail(Failure::new("extra-tokens", format!("{}: {} tokens are not accounted for by mode C tokens and their declared units", ctx, tm.len() - j)));
        }
    }
    o.observe(&(tc.len(), ta.len(), tb.len()));
    o
}

pub fn main(tier: Tier, replay: Option<String>) -> i32 {
    let mut rep = Report::new("C09", "model_checking", tier);
    rep.rule = "states = all strings within the bound over each world's alphabet (worlds with system->system, user->system, user->user split references, numeric / U-prefixed / inline, units of 1/3/4-byte characters, words reached only through normalisation, units that do not add up to the key); every state is tokenized in C, A and B and every C morpheme is split on demand; the declared units come from the CSV; non-trivial = a token declaring two or more units occurred".into();
    rep.assumptions = vec!["words declaring exactly one unit are excluded from the on-demand equivalence, as in the statement; tokens merged by path-rewrite plugins declare no units".into()];
    let mut jobs: Vec<Box<dyn AnyJob>> = Vec::new();
    // the C01 worlds plus a world with three layers of user dictionaries
    for j in c01::jobs(tier, c09_oracle) {
        jobs.push(j);
    }
    let w = Arc::new(World::build(spec_user("W-user3", 3, false)).expect("W-user3"));
    let bounds = tier.pick(TreeBounds { full_len: 4, ext_len: 6, max_special: 1 }, TreeBounds { full_len: 5, ext_len: 8, max_special: 2 });
    let b = bounds.to_json();
    jobs.push(job(TextTree { world: w, label: "user".into(), alpha: c01::alphabet_user(), bounds, oracle: c09_oracle }, Strategy::Dfs, Some(tier.pick(40, 1500)), b));
    // words declaring 63, 64, 66 and 127 units (the byte size of an array of 64 word ids no longer
    // fits eight bits; 127 is the maximum of the format)
    {
        let mut spec = spec_min("W-many-units");
        let unit = spec.system.len();
        spec.system.push(Row::new("q", 1, 1, 3000, P_NOUN));
        let mut texts = Vec::new();
        for n in [63usize, 64, 66, 127] {
            let units = vec![unit.to_string(); n].join("/");
            spec.system.push(Row::new(&"q".repeat(n), 1, 1, -30000, P_NOUN).splits("C", &units, &units));
            texts.push("q".repeat(n));
            texts.push(format!("東{}京", "q".repeat(n)));
        }
        // words whose characters have different widths that average three bytes (2+4, 1+4+4, 2+3+4):
        // nothing about a word's byte length says how wide its characters are
        for (word, parts) in [("é𠮷", vec!["é", "𠮷"]), ("q𠮷𠮷", vec!["q", "𠮷", "𠮷"]), ("é東𠮷", vec!["é", "東", "𠮷"]), ("𠮷é", vec!["𠮷", "é"])] {
            let mut ids = Vec::new();
            for p in &parts {
                let idx = match spec.system.iter().position(|r| r.surface == *p) {
                    Some(i) => i,
                    None => {
                        spec.system.push(Row::new(p, 1, 1, 3000, P_NOUN));
                        spec.system.len() - 1
                    }
                };
                ids.push(idx.to_string());
            }
            let units = ids.join("/");
            spec.system.push(Row::new(word, 1, 1, -30000, P_NOUN).splits("C", &units, &units));
            texts.push(word.to_string());
            texts.push(format!("東{}京", word));
        }
        let w = Arc::new(World::build(spec).expect("W-many-units"));
        let tt = Arc::new(TextTree { world: w, label: "many-units".into(), alpha: vec![], bounds: TreeBounds::full(0), oracle: c09_oracle });
        let n = texts.len();
        jobs.push(job(
            CaseSpace {
                label: "W-many-units/words-of-63-to-127-units".into(),
                cases: texts,
                check_fn: Box::new(move |t: &String| c09_oracle(&tt, t)),
                describe_fn: Box::new(|t: &String| serde_json::json!({"text_length": t.chars().count(), "text": if t.chars().count() > 20 { format!("{}...", t.chars().take(20).collect::<String>()) } else { t.clone() }})),
            },
            Strategy::Bfs,
            Some(120),
            serde_json::json!({"texts": n, "unit_counts": [63, 64, 66, 127]}),
        ));
    }
    let _: Option<Value> = None;
    drive(rep, jobs, replay)
}
