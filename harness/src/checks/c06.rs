//! C06 – the dictionary compiler is total and never emits an invalid dictionary; a failure of the
//! output sink at any byte is never reported as success (fault enumeration).

use crate::common::evidence::{Report, Tier};
use crate::common::explore::*;
use crate::common::findings::Failure;
use crate::common::panics::catch;
use crate::common::refmodel::*;
use crate::common::worlds::*;
use serde_json::{json, Value};
use std::io::Write;
use std::path::PathBuf;
use std::sync::Arc;
use sudachi::analysis::stateless_tokenizer::DictionaryAccess;
use sudachi::analysis::Mode;
use sudachi::dic::build::DictBuilder;
use sudachi::dic::word_id::WordId;

pub struct Env {
    pub dir: PathBuf,
    pub matrix: String,
    pub base_rows: Vec<Row>,
    pub base_sys: Vec<u8>,
}

fn base_rows() -> Vec<Row> {
    vec![
        Row::new("あ", 1, 1, 100, P_NOUN).reading("ア"),
        Row::new("い", 0, 2, -200, P_NOUN).reading("イ"),
        Row::new("あい", 2, 0, 300, P_PROPN).reading("アイ").splits("B", "0/1", "*").structure("0/1"),
        Row::new("a", 1, 1, 10, P_NOUN),
    ]
}

fn env() -> Arc<Env> {
    env_with(3, 3)
}

/// `rows` x `cols` connection matrix: a word's right id indexes a row, its left id a column
fn env_with(rows: usize, cols: usize) -> Arc<Env> {
    let spec = spec_min(&format!("W-c06-{}x{}", rows, cols));
    let dir = write_world_files(&spec);
    let matrix = Matrix::distinct(rows, cols).to_text();
    let base_rows = base_rows();
    let base_sys = compile_system(&matrix, &rows_to_csv(&base_rows)).expect("baseline compiles");
    Arc::new(Env { dir, matrix, base_rows, base_sys })
}

#[derive(Debug)]
pub enum Built {
    Rejected(String),
    Accepted(Vec<u8>),
}

/// compile a system dictionary from raw bytes
fn compile_sys_raw(matrix: &[u8], lexicon: &[u8]) -> Built {
    let mut b = DictBuilder::new_system();
    if let Err(e) = b.read_conn(matrix) {
        return Built::Rejected(format!("read_conn: {}", e));
    }
    if let Err(e) = b.read_lexicon(lexicon) {
        return Built::Rejected(format!("read_lexicon: {}", e));
    }
    if let Err(e) = b.resolve() {
        return Built::Rejected(format!("resolve: {}", e));
    }
    let mut out = Vec::new();
    match b.compile(&mut out) {
        Ok(()) => Built::Accepted(out),
        Err(e) => Built::Rejected(format!("compile: {}", e)),
    }
}

fn compile_user_raw(env: &Env, lexicon: &[u8]) -> Built {
    let base = match load(&env.dir, &bare_plugins(&pos_of(P_NOUN)), env.base_sys.clone(), vec![]) {
        Ok(b) => b,
        Err(e) => return Built::Rejected(format!("base load: {}", e)),
    };
    let mut b = DictBuilder::new_user(&base);
    if let Err(e) = b.read_lexicon(lexicon) {
        return Built::Rejected(format!("read_lexicon: {}", e));
    }
    if let Err(e) = b.resolve() {
        return Built::Rejected(format!("resolve: {}", e));
    }
    let mut out = Vec::new();
    match b.compile(&mut out) {
        Ok(()) => Built::Accepted(out),
        Err(e) => Built::Rejected(format!("compile: {}", e)),
    }
}

/// independent validation of a dictionary that the compiler reported as success
fn validate(env: &Env, system: Vec<u8>, user: Option<Vec<u8>>, probes: &[String], ctx: &str, o: &mut Outcome) {
    let sys_size = catch(|| sudachi::dic::DictionaryLoader::read_system_dictionary(&system).map(|d| d.lexicon.size()).ok()).ok().flatten();
    let user_size = user.as_ref().and_then(|u| catch(|| sudachi::dic::DictionaryLoader::read_user_dictionary(u).map(|d| d.lexicon.size()).ok()).ok().flatten());
    let users: Vec<Vec<u8>> = user.into_iter().collect();
    let n_users = users.len();
    let r = catch(|| load(&env.dir, &bare_plugins(&pos_of(P_NOUN)), system, users));
    let dict = match r {
        Err(p) => {
            o.fail(Failure::panic(&format!("{}: loading the produced dictionary", ctx), &p));
            return;
        }
        Ok(Err(e)) => {
            o.fail(Failure::new("accepted-but-does-not-load", format!("{}: compiler reported success but the dictionary does not load: {}", ctx, e)));
            return;
        }
        Ok(Ok(d)) => Arc::new(d),
    };
    let r = catch(|| {
        let mut fails: Vec<Failure> = Vec::new();
        let lex = dict.lexicon();
        let g = dict.grammar();
        let (nl, nr) = (g.conn_matrix().num_left() as i32, g.conn_matrix().num_right() as i32);
        let mut sizes: Vec<u32> = vec![sys_size.unwrap_or(0)];
        if n_users > 0 {
            sizes.push(user_size.unwrap_or(0));
        }
        if sizes.iter().sum::<u32>() != lex.size() {
            fails.push(Failure::new("word-count", format!("{}: lexicon set reports {} words, headers say {:?}", ctx, lex.size(), sizes)));
        }
        for (d, &n) in sizes.iter().enumerate() {
            for i in 0..n {
                let wid = WordId::new(d as u8, i);
                let (l, r, _c) = lex.get_word_param(wid);
                let (l, r) = (l as i32, r as i32);
                if l >= 0 {
                    // cost(prev.right_id, next.left_id): a left id indexes the second dimension
                    if l >= nr || r < 0 || r >= nl {
                        fails.push(Failure::new("connection-id-outside-matrix", format!("{}: indexed word ({}, {}) has connection ids ({}, {}), the matrix is {}x{} (a word's left id must be < {}, its right id < {})", ctx, d, i, l, r, nl, nr, nr, nl)));
                    }
                }
                match lex.get_word_info(wid) {
                    Err(e) => fails.push(Failure::new("word-info-unreadable", format!("{}: word ({}, {}): {}", ctx, d, i, e))),
                    Ok(wi) => {
                        let mut refs: Vec<WordId> = Vec::new();
                        refs.extend_from_slice(wi.a_unit_split());
                        refs.extend_from_slice(wi.b_unit_split());
                        refs.extend_from_slice(wi.word_structure());
                        for r in refs {
                            let rd = r.dic() as usize;
                            if rd >= sizes.len() || r.word() >= sizes[rd] {
                                fails.push(Failure::new("dangling-reference", format!("{}: word ({}, {}) refers to word {:?} which does not exist", ctx, d, i, r)));
                            } else if let Err(e) = lex.get_word_info(r) {
                                fails.push(Failure::new("dangling-reference", format!("{}: word ({}, {}) refers to {:?}: {}", ctx, d, i, r, e)));
                            }
                        }
                        let _ = wi.dictionary_form();
                    }
                }
            }
        }
        fails
    });
    match r {
        Err(p) => {
            o.fail(Failure::panic(&format!("{}: reading the produced dictionary", ctx), &p));
            return;
        }
        Ok(f) => {
            let bad = !f.is_empty();
            o.failures.extend(f);
            if bad {
                return;
            }
        }
    }
    for p in probes {
        for mode in [Mode::C, Mode::A] {
            o.evaluations += 1;
            match catch(|| analyze(&dict, mode, p)) {
                Err(pn) => {
                    o.fail(Failure::panic(&format!("{}: analysing {:?} with the produced dictionary", ctx, p), &pn));
                    return;
                }
                Ok(Err(e)) => {
                    o.fail(Failure::new("accepted-but-analysis-fails", format!("{}: analysing {:?} fails: {:?}", ctx, p, e)));
                    return;
                }
                Ok(Ok(_)) => {}
            }
        }
    }
}

fn validate_built(env: &Env, built: Built, user: bool, probes: &[String], ctx: &str, o: &mut Outcome) {
    match built {
        Built::Rejected(_) => o.count("rejected", 1),
        Built::Accepted(bytes) => {
            o.count("accepted", 1);
            o.nontrivial = true;
            if user {
                validate(env, env.base_sys.clone(), Some(bytes), probes, ctx, o);
            } else {
                validate(env, bytes, None, probes, ctx, o);
            }
        }
    }
}

fn default_probes() -> Vec<String> {
    vec!["あい".into(), "あいa0".into(), "いあ,\"".into(), "x".into(), "".into()]
}

// ---- (a) byte strings --------------------------------------------------------------------------

pub struct ByteSpace {
    pub env: Arc<Env>,
    pub label: String,
    pub alphabet: Vec<Vec<u8>>,
    pub max_len: usize,
}

impl Space for ByteSpace {
    type State = Vec<u16>;
    fn name(&self) -> String {
        self.label.clone()
    }
    fn init(&self) -> Vec<Vec<u16>> {
        vec![vec![]]
    }
    fn next(&self, s: &Vec<u16>, out: &mut Vec<Vec<u16>>) {
        if s.len() >= self.max_len {
            return;
        }
        for i in 0..self.alphabet.len() {
            let mut n = s.clone();
            n.push(i as u16);
            out.push(n);
        }
    }
    fn check(&self, s: &Vec<u16>) -> Outcome {
        let mut o = Outcome::new();
        let bytes: Vec<u8> = s.iter().flat_map(|&i| self.alphabet[i as usize].clone()).collect();
        let show = String::from_utf8_lossy(&bytes).to_string();
        let valid_lex = rows_to_csv(&self.env.base_rows);
        // as lexicon (system and user), as matrix
        for which in 0..3 {
            o.evaluations += 1;
            let ctx = format!("bytes {:?} ({:02x?}) offered as {}", show, bytes, ["system lexicon", "user lexicon", "connection matrix"][which]);
            let r = catch(|| match which {
                0 => compile_sys_raw(self.env.matrix.as_bytes(), &bytes),
                1 => compile_user_raw(&self.env, &bytes),
                _ => compile_sys_raw(&bytes, valid_lex.as_bytes()),
            });
            match r {
                Err(p) => o.fail(Failure::panic(&ctx, &p)),
                Ok(b) => validate_built(&self.env, b, which == 1, &default_probes(), &ctx, &mut o),
            }
        }
        o.observe(&bytes);
        o
    }
    fn describe(&self, s: &Vec<u16>) -> Value {
        let bytes: Vec<u8> = s.iter().flat_map(|&i| self.alphabet[i as usize].clone()).collect();
        json!({"symbols": s, "bytes": bytes, "text": String::from_utf8_lossy(&bytes)})
    }
    fn parse(&self, v: &Value) -> Option<Vec<u16>> {
        Some(v["symbols"].as_array()?.iter().filter_map(|x| x.as_u64().map(|n| n as u16)).collect())
    }
}

// ---- (b) hostile field deviations ------------------------------------------------------------------

pub struct FieldSpace {
    pub env: Arc<Env>,
    pub user: bool,
    /// (field index, raw replacement)
    pub devs: Vec<(usize, String)>,
    pub max_devs: usize,
}

fn raw_baseline_row() -> Vec<String> {
    vec!["さ", "1", "1", "700", "さ", "名詞", "普通名詞", "一般", "*", "*", "*", "サ", "さ", "*", "A", "*", "*", "*", "*"].iter().map(|s| s.to_string()).collect()
}

pub fn hostile_devs() -> Vec<(usize, String)> {
    let mut d: Vec<(usize, String)> = Vec::new();
    for v in ["", "\\u{110000}", "\\uD800", "\\u{}", "a\\u002cb", "\u{0}", "a\\u0000b", "\\u{0}", "\\u0000"] {
        d.push((0, v.to_string()));
    }
    // lengths around the switch from a one-byte to a two-byte length prefix
    for n in [126usize, 127, 128, 129, 255, 256] {
        d.push((0, "a".repeat(n)));
        d.push((4, "あ".repeat(n)));
        d.push((11, "ア".repeat(n)));
    }
    d.push((0, "あ".repeat(11000))); // 33000 bytes > 32767
    d.push((0, "a".repeat(32767)));
    d.push((0, "a".repeat(32768)));
    for f in [1usize, 2] {
        for v in ["-1", "-2", "2", "3", "4", "32767", "32768", "-32768", "-32769", "", "x", "1.5", " 1", "+1"] {
            d.push((f, v.to_string()));
        }
    }
    for v in ["32767", "32768", "-32768", "-32769", "", "abc", "1e3"] {
        d.push((3, v.to_string()));
    }
    // long malformed values of mixed character widths (an error message that quotes a value must not cut it inside a character)
    for f in [1usize, 3, 13, 14, 15, 18] {
        for pad in 0..3usize {
            d.push((f, format!("{}{}", "a".repeat(pad), "あ𠮷é".repeat(12))));
        }
    }
    d.push((4, "あ".repeat(11000)));
    d.push((4, "".to_string()));
    d.push((5, "𠮷".repeat(16384)));
    d.push((11, "\\u{FFFFFF}".to_string()));
    d.push((12, "a".repeat(40000)));
    for v in ["0", "4", "5", "9", "-1", "U0", "U1", "U9", "abc", "4294967295", "268435455", "268435456", ""] {
        d.push((13, v.to_string()));
    }
    for v in ["A", "B", "C", "X", "", "BC", "a"] {
        d.push((14, v.to_string()));
    }
    for f in [15usize, 16] {
        for v in ["0/1", "9/9", "4", "5", "U0", "U9", "0/", "/", "a,b", "あ,名詞,普通名詞,一般,*,*,*,ア", "ん,名詞,普通名詞,一般,*,*,*,ン", "あ,名詞,普通名詞,一般,*,*,*", "268435455", "-1"] {
            d.push((f, v.to_string()));
        }
        d.push((f, vec!["0"; 127].join("/")));
        d.push((f, vec!["0"; 128].join("/")));
    }
    for v in ["0/1", "9", "U0", "U9", "x", "-1", "/"] {
        d.push((17, v.to_string()));
    }
    d.push((17, vec!["1"; 128].join("/")));
    for v in ["0", "-1", "x", "4294967295", "4294967296", "1/", ""] {
        d.push((18, v.to_string()));
    }
    d.push((18, (0..128).map(|i| i.to_string()).collect::<Vec<_>>().join("/")));
    // arity: 100 + k = truncate the row to k fields, 200 = one extra field
    for k in [0usize, 1, 4, 5, 13, 17, 18] {
        d.push((100 + k, String::new()));
    }
    d.push((200, "extra".to_string()));
    d
}

impl FieldSpace {
    fn csv_of(&self, s: &[u8]) -> String {
        let mut row = raw_baseline_row();
        let mut truncate: Option<usize> = None;
        let mut extra = false;
        for &i in s {
            let (f, v) = &self.devs[i as usize];
            if *f >= 200 {
                extra = true;
            } else if *f >= 100 {
                truncate = Some(f - 100);
            } else {
                row[*f] = v.clone();
            }
        }
        if let Some(k) = truncate {
            row.truncate(k);
        }
        if extra {
            row.push("extra".into());
        }
        let line: String = row.iter().map(|f| csv_field(f)).collect::<Vec<_>>().join(",");
        if self.user {
            format!("{}\n{}\n", Row::new("府", 1, 1, 2914, P_NOUN).to_csv(), line)
        } else {
            format!("{}{}\n", rows_to_csv(&self.env.base_rows), line)
        }
    }
}

impl Space for FieldSpace {
    type State = Vec<u8>;
    fn name(&self) -> String {
        format!("compiler/hostile-fields-{}{}", if self.user { "user" } else { "system" }, if self.env.matrix.starts_with("3 3") { "" } else { "-non-square-matrix" })
    }
    fn init(&self) -> Vec<Vec<u8>> {
        vec![vec![]]
    }
    fn next(&self, s: &Vec<u8>, out: &mut Vec<Vec<u8>>) {
        if s.len() >= self.max_devs {
            return;
        }
        let start = s.last().map(|&l| l as usize + 1).unwrap_or(0);
        for i in start..self.devs.len() {
            if s.iter().any(|&j| self.devs[j as usize].0 == self.devs[i].0) {
                continue;
            }
            let mut n = s.clone();
            n.push(i as u8);
            out.push(n);
        }
    }
    fn check(&self, s: &Vec<u8>) -> Outcome {
        let mut o = Outcome::new();
        o.evaluations = 1;
        let csv = self.csv_of(s);
        let names: Vec<String> = s.iter().map(|&i| { let (f, v) = &self.devs[i as usize]; format!("field {} = {:?}", f, if v.len() > 30 { format!("{}…({} bytes)", v.chars().take(10).collect::<String>(), v.len()) } else { v.clone() }) }).collect();
        let ctx = format!("[{}] row with {:?}", if self.user { "user" } else { "system" }, names);
        let r = catch(|| if self.user { compile_user_raw(&self.env, csv.as_bytes()) } else { compile_sys_raw(self.env.matrix.as_bytes(), csv.as_bytes()) });
        match r {
            Err(p) => o.fail(Failure::panic(&ctx, &p)),
            Ok(b) => {
                let mut probes = default_probes();
                probes.push("さあい".into());
                probes.push("府さ".into());
                validate_built(&self.env, b, self.user, &probes, &ctx, &mut o);
            }
        }
        o.observe(s);
        o
    }
    fn describe(&self, s: &Vec<u8>) -> Value {
        json!({"user": self.user, "deviations": s, "fields": s.iter().map(|&i| { let (f, v) = &self.devs[i as usize]; json!({"field": f, "value": if v.len() > 60 { format!("{}…({} bytes)", v.chars().take(10).collect::<String>(), v.len()) } else { v.clone() }}) }).collect::<Vec<_>>()})
    }
    fn parse(&self, v: &Value) -> Option<Vec<u8>> {
        Some(v["deviations"].as_array()?.iter().filter_map(|x| x.as_u64().map(|n| n as u8)).collect())
    }
}

// ---- (c) matrix texts, (d) call orders ----------------------------------------------------------------

fn matrix_cases() -> Vec<String> {
    let mut v: Vec<String> = vec![
        "", "\n", "\n\n \n", "   ", "3 3", "3 3\n", "3", "3 x\n", "x 3\n", "-1 3\n", "3 -1\n", "0 0\n", "0 3\n", "32767 1\n", "32768 1\n", "1 32768\n",
        "3 3\n0 0 0\n", "3 3\n3 0 5\n", "3 3\n0 3 5\n", "3 3\n2 2 5\n", "3 3\n-1 0 5\n", "3 3\n0 -1 5\n", "3 3\n0 0\n", "3 3\n0 0 x\n", "3 3\n0 0 32768\n", "3 3\n0 0 -32769\n",
        "3 3\n0 0 1 trailing\n", "3 3\n0 0 1\n\n\n1 1 2\n", "3 3 3\n0 0 1\n", "3\t3\n0\t0\t1\n", " 3 3 \n 0 0 1 \n", "3 3\r\n0 0 1\r\n", "2 3\n1 2 7\n", "2 3\n2 1 7\n", "3 2\n2 1 7\n", "3 2\n1 2 7\n", "1 1\n0 0 0\n",
        "3 3\n0 0 1\n0 0 2\n", "\u{feff}3 3\n0 0 1\n", "3 3\n#comment\n",
    ]
    .iter()
    .map(|s| s.to_string())
    .collect();
    v.push(format!("3 3\n{}", "0 0 1\n".repeat(2000)));
    v
}

#[derive(Clone, Debug)]
enum BOp {
    Conn,
    ConnSmall,
    /// a matrix text that declares a smaller size and then fails (a cell outside it)
    ConnFailing,
    Lex,
    LexInline,
    LexBadRef,
    /// a lexicon whose first row (with an inline reference) is fine and whose second row is malformed:
    /// the read fails after the first row has been taken in
    LexHalfBad,
    Resolve,
    Compile,
}

fn order_cases(max: usize) -> Vec<Vec<BOp>> {
    let ops = [BOp::Conn, BOp::ConnSmall, BOp::ConnFailing, BOp::Lex, BOp::LexInline, BOp::LexBadRef, BOp::LexHalfBad, BOp::Resolve, BOp::Compile];
    let mut all: Vec<Vec<BOp>> = vec![vec![]];
    let mut cur: Vec<Vec<BOp>> = vec![vec![]];
    for _ in 0..max {
        let mut nxt = Vec::new();
        for c in &cur {
            for o in &ops {
                let mut n = c.clone();
                n.push(o.clone());
                nxt.push(n);
            }
        }
        all.extend(nxt.iter().cloned());
        cur = nxt;
    }
    // only sequences that end with a compile are interesting
    all.into_iter().filter(|s| matches!(s.last(), Some(BOp::Compile))).collect()
}

// ---- E3: sink faults -----------------------------------------------------------------------------------

struct FaultSink {
    written: Vec<u8>,
    fail_at: usize,
    zero: bool,
    chunk: usize,
}

impl Write for FaultSink {
    fn write(&mut self, buf: &[u8]) -> std::io::Result<usize> {
        if buf.is_empty() {
            return Ok(0);
        }
        if self.written.len() >= self.fail_at {
            return if self.zero { Ok(0) } else { Err(std::io::Error::new(std::io::ErrorKind::Other, "injected sink failure")) };
        }
        let room = self.fail_at - self.written.len();
        let n = buf.len().min(room).min(self.chunk);
        self.written.extend_from_slice(&buf[..n]);
        Ok(n)
    }
    fn flush(&mut self) -> std::io::Result<()> {
        if self.written.len() >= self.fail_at && !self.zero {
            return Err(std::io::Error::new(std::io::ErrorKind::Other, "injected sink failure (flush)"));
        }
        Ok(())
    }
}

pub fn main(tier: Tier, replay: Option<String>) -> i32 {
    let mut rep = Report::new("C06", "fault_enumeration", tier);
    rep.rule = "input half: (a) every byte string up to the bound over all 256 byte values and over a CSV-relevant alphabet, offered as system lexicon, user lexicon and connection matrix; (b) a valid row with every single / pair of hostile field values and arities, system and user; (c) a list of matrix texts; (d) every builder call order up to the bound (5 quick, 6 thorough) ending in compile. Oracle: no panic; if success is reported the dictionary must load, every indexed entry's ids must lie inside the matrix as the lookup formula indexes it, every reference must resolve, and probe texts must analyse. Fault half: for every byte offset k of the baseline output, a sink failing with an error at k and one returning Ok(0) at k (whole writes, and one byte per call): compile must report an error; a sink accepting one byte per call must produce identical bytes. non-trivial = the compiler accepted the input / a fault was injected".into();
    rep.assumptions = vec!["the probe analysis uses a minimal configuration (simple OOV provider, no other plugin)".into()];
    let e = env();
    let mut jobs: Vec<Box<dyn AnyJob>> = Vec::new();
    // (c)
    {
        let env = e.clone();
        let valid_lex = rows_to_csv(&e.base_rows);
        jobs.push(job(
            CaseSpace {
                label: "compiler/matrix-texts".into(),
                cases: matrix_cases(),
                check_fn: Box::new(move |m: &String| {
                    let mut o = Outcome::new();
                    o.evaluations = 1;
                    let ctx = format!("matrix text {:?}", if m.len() > 60 { format!("{}…({} bytes)", &m[..40], m.len()) } else { m.clone() });
                    match catch(|| compile_sys_raw(m.as_bytes(), valid_lex.as_bytes())) {
                        Err(p) => o.fail(Failure::panic(&ctx, &p)),
                        Ok(b) => validate_built(&env, b, false, &default_probes(), &ctx, &mut o),
                    }
                    o.observe(m);
                    o
                }),
                describe_fn: Box::new(|m: &String| json!(if m.len() > 200 { format!("{}…({} bytes)", &m[..40], m.len()) } else { m.clone() })),
            },
            Strategy::Bfs,
            Some(60),
            json!({"texts": matrix_cases().len()}),
        ));
    }
    // (c') one key with many indexed rows (the id list of a key holds at most 127 ids) plus rows around it:
    // whatever is accepted must hand out every indexed row under its key
    {
        let env = e.clone();
        let cases: Vec<(usize, bool)> = [1usize, 126, 127, 128, 129, 254, 255, 256, 257, 300, 383, 384, 512, 700].iter().flat_map(|&n| [(n, false), (n, true)]).collect();
        jobs.push(job(
            CaseSpace {
                label: "compiler/many-homographs".into(),
                cases,
                check_fn: Box::new(move |&(n, user): &(usize, bool)| {
                    let mut o = Outcome::new();
                    o.evaluations = 1;
                    let ctx = format!("{} lexicon with {} indexed rows under the key \"あい\"", if user { "user" } else { "system" }, n);
                    let mut rows: Vec<Row> = vec![Row::new("あ", 1, 1, 100, P_NOUN), Row::new("あいう", 1, 1, 100, P_NOUN)];
                    for k in 0..n {
                        rows.push(Row::new("あい", 1, 1, (k % 3000) as i32, P_NOUN).reading(&format!("ヨミ{}", k)));
                    }
                    rows.push(Row::new("い", 1, 1, 100, P_NOUN));
                    let csv = rows_to_csv(&rows);
                    match catch(|| if user { compile_user_raw(&env, csv.as_bytes()) } else { compile_sys_raw(env.matrix.as_bytes(), csv.as_bytes()) }) {
                        Err(p) => o.fail(Failure::panic(&ctx, &p)),
                        Ok(Built::Rejected(_)) => o.count("rejected", 1),
                        Ok(Built::Accepted(bytes)) => {
                            let (sys, users) = if user { (env.base_sys.clone(), vec![bytes.clone()]) } else { (bytes.clone(), vec![]) };
                            match catch(|| load(&env.dir, &bare_plugins(&pos_of(P_NOUN)), sys, users)) {
                                Err(p) => o.fail(Failure::panic(&format!("{}: loading the produced dictionary", ctx), &p)),
                                Ok(Err(_)) => {} // reported by validate_built below
                                Ok(Ok(d)) => {
                                    let dic_no = if user { 1u8 } else { 0 };
                                    let found = catch(|| {
                                        let key = "あいう";
                                        d.lexicon().lookup(key.as_bytes(), 0).filter(|en| en.end == "あい".len() && en.word_id.dic() == dic_no).map(|en| en.word_id.word()).collect::<std::collections::BTreeSet<u32>>()
                                    });
                                    match found {
                                        Err(p) => o.fail(Failure::panic(&format!("{}: lookup in the produced dictionary", ctx), &p)),
                                        Ok(ids) => {
                                            let want: std::collections::BTreeSet<u32> = (2..2 + n as u32).collect();
                                            if ids != want {
                                                let missing: Vec<&u32> = want.difference(&ids).take(5).collect();
                                                o.fail(Failure::new("accepted-but-index-incomplete", format!("{}: compiler reported success, but lookup finds {} of the {} rows under their key (missing e.g. {:?})", ctx, ids.len(), n, missing)));
                                            }
                                        }
                                    }
                                }
                            }
                            validate_built(&env, Built::Accepted(bytes), user, &["あいう".to_string(), "あい".to_string()], &ctx, &mut o);
                        }
                    }
                    o.observe(&(n, user));
                    o
                }),
                describe_fn: Box::new(|&(n, user): &(usize, bool)| json!({"rows_under_one_key": n, "user": user})),
            },
            Strategy::Bfs,
            Some(tier.pick(60, 300)),
            json!({"homograph_counts": [1, 126, 127, 128, 129, 254, 255, 256, 257, 300, 383, 384, 512, 700]}),
        ));
    }
    // (d)
    {
        let env = e.clone();
        let cases = order_cases(tier.pick(5, 6));
        let n = cases.len();
        jobs.push(job(
            CaseSpace {
                label: "compiler/call-orders".into(),
                cases,
                check_fn: Box::new(move |ops: &Vec<BOp>| {
                    let mut o = Outcome::new();
                    o.evaluations = 1;
                    let ctx = format!("builder calls {:?}", ops);
                    let valid = rows_to_csv(&env.base_rows);
                    // self-contained: the two words it refers to inline come with it
                    let inline = format!(
                        "{}\n{}\n{}\n",
                        Row::new("あ", 1, 1, 100, P_NOUN).reading("ア").to_csv(),
                        Row::new("い", 0, 2, -200, P_NOUN).reading("イ").to_csv(),
                        Row::new("いあ", 1, 1, 5, P_NOUN).splits("C", "い,名詞,普通名詞,一般,*,*,*,イ/あ,名詞,普通名詞,一般,*,*,*,ア", "*").to_csv()
                    );
                    let badref = format!("{}\n", Row::new("いい", 1, 1, 5, P_NOUN).splits("C", "い,名詞,普通名詞,一般,*,*,*,イ/ん,名詞,普通名詞,一般,*,*,*,ン", "*").to_csv());
                    let matrix = env.matrix.clone();
                    let r = catch(|| {
                        let mut b = DictBuilder::new_system();
                        let mut out: Option<Built> = None;
                        for op in ops {
                            let res: Result<(), String> = match op {
                                BOp::Conn => b.read_conn(matrix.as_bytes()).map_err(|e| e.to_string()),
                                BOp::ConnSmall => b.read_conn("1 1\n0 0 0\n".as_bytes()).map_err(|e| e.to_string()),
                                BOp::ConnFailing => b.read_conn("2 2\n0 0 0\n0 1 5\n5 5 9\n".as_bytes()).map_err(|e| e.to_string()),
                                BOp::Lex => b.read_lexicon(valid.as_bytes()).map(|_| ()).map_err(|e| e.to_string()),
                                BOp::LexInline => b.read_lexicon(inline.as_bytes()).map(|_| ()).map_err(|e| e.to_string()),
                                BOp::LexBadRef => b.read_lexicon(badref.as_bytes()).map(|_| ()).map_err(|e| e.to_string()),
                                BOp::LexHalfBad => b.read_lexicon(format!("{}あ,x,1\n", inline).as_bytes()).map(|_| ()).map_err(|e| e.to_string()),
                                BOp::Resolve => b.resolve().map(|_| ()).map_err(|e| e.to_string()),
                                BOp::Compile => {
                                    let mut v = Vec::new();
                                    match b.compile(&mut v) {
                                        Ok(()) => {
                                            out = Some(Built::Accepted(v));
                                            Ok(())
                                        }
                                        Err(e) => {
                                            out = Some(Built::Rejected(e.to_string()));
                                            Ok(())
                                        }
                                    }
                                }
                            };
                            if res.is_err() {
                                // an error value from an intermediate call: later calls continue (a caller might)
                            }
                        }
                        out.unwrap_or(Built::Rejected("no compile".into()))
                    });
                    match r {
                        Err(p) => o.fail(Failure::panic(&ctx, &p)),
                        Ok(b) => validate_built(&env, b, false, &default_probes(), &ctx, &mut o),
                    }
                    o.observe(&format!("{:?}", ops));
                    o
                }),
                describe_fn: Box::new(|ops: &Vec<BOp>| json!(format!("{:?}", ops))),
            },
            Strategy::Bfs,
            Some(tier.pick(60, 600)),
            json!({"sequences": n, "max_len": tier.pick(5, 6)}),
        ));
    }
    // (b)
    for user in [false, true] {
        let devs = hostile_devs();
        let b = json!({"hostile_values": devs.len(), "max_simultaneous": tier.pick(2, 2)});
        jobs.push(job(FieldSpace { env: e.clone(), user, devs, max_devs: 2 }, Strategy::Bfs, Some(tier.pick(60, 1500)), b));
    }
    // (b') the same rows against non-square matrices (single deviations): an id between the two
    // dimensions is legal on one side only
    for (rows, cols) in [(3usize, 5usize), (5, 3)] {
        let e2 = env_with(rows, cols);
        for user in [false, true] {
            let devs = hostile_devs();
            let b = json!({"hostile_values": devs.len(), "max_simultaneous": 1, "matrix": [rows, cols]});
            jobs.push(job(FieldSpace { env: e2.clone(), user, devs, max_devs: 1 }, Strategy::Bfs, Some(tier.pick(60, 600)), b));
        }
    }
    // (a)
    let csv_alpha: Vec<Vec<u8>> = vec![b",".to_vec(), b"\"".to_vec(), b"\n".to_vec(), b"\r".to_vec(), b"0".to_vec(), b"1".to_vec(), b"-".to_vec(), b"a".to_vec(), "あ".as_bytes().to_vec(), b"\\".to_vec(), b"u".to_vec(), b"{".to_vec(), b"}".to_vec(), b"/".to_vec(), b"*".to_vec(), b"U".to_vec(), vec![0xFF], vec![0], b" ".to_vec(), b"3".to_vec()];
    let ml = tier.pick(3, 5);
    jobs.push(job(ByteSpace { env: e.clone(), label: "compiler/csv-alphabet-strings".into(), alphabet: csv_alpha, max_len: ml }, Strategy::Dfs, Some(tier.pick(60, 3000)), json!({"alphabet": 20, "max_len": ml})));
    let all_bytes: Vec<Vec<u8>> = (0..=255u8).map(|b| vec![b]).collect();
    let ml = tier.pick(1, 2);
    jobs.push(job(ByteSpace { env: e.clone(), label: "compiler/all-byte-values".into(), alphabet: all_bytes, max_len: ml }, Strategy::Dfs, Some(tier.pick(60, 3000)), json!({"alphabet": 256, "max_len": ml})));
    // E3
    {
        let env = e.clone();
        let n = e.base_sys.len();
        // user dictionary baseline
        let user_csv = format!("{}\n{}\n", Row::new("府", 1, 1, 2914, P_NOUN).to_csv(), Row::new("あ府", 1, 1, 10, P_PROPN).splits("C", "0/U0", "*").to_csv());
        let mut cases: Vec<(bool, usize, bool, usize)> = Vec::new(); // (user, k, zero, chunk)
        for k in 0..=n {
            for zero in [false, true] {
                cases.push((false, k, zero, usize::MAX));
            }
            if tier == Tier::Thorough || k % 7 == 0 {
                cases.push((false, k, false, 1));
                cases.push((false, k, true, 1));
            }
        }
        let user_len = match compile_user_raw(&e, user_csv.as_bytes()) {
            Built::Accepted(b) => b.len(),
            Built::Rejected(e) => panic!("user baseline rejected: {}", e),
        };
        // reference bytes of the user dictionary with the time stamp used below
        let user_ref: Vec<u8> = {
            let base = load(&e.dir, &bare_plugins(&pos_of(P_NOUN)), e.base_sys.clone(), vec![]).expect("bare base");
            let mut b = DictBuilder::new_user(&base);
            b.set_compile_time(std::time::UNIX_EPOCH + std::time::Duration::from_secs(1_600_000_000));
            b.read_lexicon(user_csv.as_bytes()).expect("user baseline");
            b.resolve().expect("user baseline");
            let mut out = Vec::new();
            b.compile(&mut out).expect("user baseline");
            out
        };
        for k in 0..=user_len {
            cases.push((true, k, false, usize::MAX));
            cases.push((true, k, true, usize::MAX));
        }
        let total = cases.len();
        jobs.push(job(
            CaseSpace {
                label: "compiler/sink-faults".into(),
                cases,
                check_fn: Box::new(move |&(user, k, zero, chunk): &(bool, usize, bool, usize)| {
                    let mut o = Outcome::new();
                    o.evaluations = 1;
                    o.nontrivial = true;
                    let full_len = if user { user_len } else { env.base_sys.len() };
                    let ctx = format!("{} dictionary, sink {} at byte {} of {} ({} bytes per write call)", if user { "user" } else { "system" }, if zero { "returns Ok(0)" } else { "fails" }, k, full_len, if chunk == usize::MAX { "unlimited".to_string() } else { chunk.to_string() });
                    let csv = if user { user_csv.clone() } else { rows_to_csv(&env.base_rows) };
                    let r = catch(|| {
                        let mut sink = FaultSink { written: Vec::new(), fail_at: k, zero, chunk };
                        // the same builder is asked again with a healthy sink afterwards
                        let mut retry: Option<Result<Vec<u8>, String>> = None;
                        let res = if user {
                            let base = load(&env.dir, &bare_plugins(&pos_of(P_NOUN)), env.base_sys.clone(), vec![]).map_err(|e| e.to_string())?;
                            let mut b = DictBuilder::new_user(&base);
                            b.set_compile_time(std::time::UNIX_EPOCH + std::time::Duration::from_secs(1_600_000_000));
                            b.read_lexicon(csv.as_bytes()).map_err(|e| e.to_string())?;
                            b.resolve().map_err(|e| e.to_string())?;
                            let res = b.compile(&mut sink).map_err(|e| e.to_string());
                            let mut again = Vec::new();
                            retry = Some(b.compile(&mut again).map(|_| again).map_err(|e| e.to_string()));
                            res
                        } else {
                            let mut b = DictBuilder::new_system();
                            b.set_compile_time(std::time::UNIX_EPOCH + std::time::Duration::from_secs(1_600_000_000));
                            b.read_conn(env.matrix.as_bytes()).map_err(|e| e.to_string())?;
                            b.read_lexicon(csv.as_bytes()).map_err(|e| e.to_string())?;
                            b.resolve().map_err(|e| e.to_string())?;
                            let res = b.compile(&mut sink).map_err(|e| e.to_string());
                            let mut again = Vec::new();
                            retry = Some(b.compile(&mut again).map(|_| again).map_err(|e| e.to_string()));
                            res
                        };
                        Ok::<_, String>((res, sink.written, retry))
                    });
                    match r {
                        Err(p) => o.fail(Failure::panic(&ctx, &p)),
                        Ok(Err(e)) => o.fail(Failure::new("baseline-not-compilable", format!("{}: {}", ctx, e))),
                        Ok(Ok((res, written, retry))) => {
                            let complete = k >= full_len;
                            // success of the second attempt is success like any other: the bytes must be the dictionary
                            if let Some(Ok(bytes)) = &retry {
                                o.count("retries_succeeded", 1);
                                let reference: &Vec<u8> = if user { &user_ref } else { &env.base_sys };
                                if bytes != reference {
                                    let at = bytes.iter().zip(reference.iter()).position(|(a, b)| a != b).unwrap_or(bytes.len().min(reference.len()));
                                    o.fail(Failure::new("retry-after-sink-failure-differs", format!("{}: a second compile() on the same builder with a healthy sink reports success, but its {} bytes differ from the dictionary ({} bytes) from byte {} on", ctx, bytes.len(), reference.len(), at)));
                                }
                            }
                            match res {
                                Ok(()) => {
                                    if !complete {
                                        o.fail(Failure::new("sink-failure-reported-as-success", format!("{}: compile returned Ok although only {} bytes reached the sink", ctx, written.len())));
                                    } else if !user && written != env.base_sys {
                                        o.fail(Failure::new("short-writes-change-output", format!("{}: output differs from the reference bytes", ctx)));
                                    }
                                }
                                Err(_) => {
                                    if complete {
                                        o.fail(Failure::new("error-without-fault", format!("{}: compile failed although the sink never failed", ctx)));
                                    }
                                }
                            }
                        }
                    }
                    o.observe(&(user, k.min(5), zero, chunk == 1));
                    o
                }),
                describe_fn: Box::new(|&(user, k, zero, chunk): &(bool, usize, bool, usize)| json!({"user": user, "fail_at_byte": k, "ok0": zero, "bytes_per_write": if chunk == usize::MAX { json!(null) } else { json!(chunk) }})),
            },
            Strategy::Bfs,
            Some(tier.pick(60, 900)),
            json!({"fault_cases": total, "system_bytes": n, "user_bytes": user_len}),
        ));
    }
    drive(rep, jobs, replay)
}
