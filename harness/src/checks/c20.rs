//! C20 – out-of-range plugin parameters are rejected when the dictionary is loaded.
//!
//! State = set of parameter deviations (baseline, every single deviation, every pair) of a
//! configuration with all three OOV provider types and the inhibit-connection plugin, for
//! connection matrices of four shapes.  The reference decides "in range" by the dimension the
//! value is used for in `ConnectionMatrix::cost`.

use crate::common::evidence::{Report, Tier};
use crate::common::explore::*;
use crate::common::findings::Failure;
use crate::common::panics::catch;
use crate::common::refmodel::*;
use crate::common::worlds::*;
use serde_json::{json, Value};
use std::path::PathBuf;
use std::sync::Arc;
use sudachi::analysis::stateless_tokenizer::DictionaryAccess;
use sudachi::analysis::Mode;

#[derive(Clone, Debug, PartialEq, Eq, Hash)]
pub enum Param {
    SimpleLeft,
    SimpleRight,
    SimpleCost,
    RegexLeft,
    RegexRight,
    RegexCost,
    UnkLeft,
    UnkRight,
    UnkCost,
    InhibitLeft,
    InhibitRight,
    /// POS of the provider is absent from the dictionary; bool = userPOS allow
    SimplePosAbsent(bool),
    RegexPosAbsent(bool),
    UnkPosAbsent(bool),
    /// POS list of the wrong length in a provider's JSON settings (kind 0: a one-component prefix
    /// of an existing POS, 1: empty list, 2: an existing POS plus a seventh component); bool = allow
    SimplePosShape(u8, bool),
    RegexPosShape(u8, bool),
    /// a second unk.def line whose POS differs from the first line's (existing) POS in the sixth
    /// component only and is absent from the dictionary; bool = userPOS allow
    UnkTwinPos(bool),
    /// the unk.def line is longer than 80 bytes (a part of speech with long component names, three
    /// paddings so that any fixed byte offset falls inside a character for one of them)
    UnkLongLine(u8),
}

pub struct RectSpace {
    pub n: usize, // num_left  (first index: right id of the previous word)
    pub m: usize, // num_right (second index: left id of the next word)
    pub dir: PathBuf,
    pub system: Vec<u8>,
    pub matrix: Matrix,
    pub devs: Vec<(Param, i64)>,
    pub max_devs: usize,
}

#[derive(Clone, Debug)]
struct Cfg {
    simple: (i64, i64, i64),
    regex: (i64, i64, i64),
    unk: (i64, i64, i64),
    inhibit: (i64, i64),
    simple_pos: Option<bool>,
    regex_pos: Option<bool>,
    unk_pos: Option<bool>,
    simple_shape: Option<(u8, bool)>,
    regex_shape: Option<(u8, bool)>,
    unk_twin: Option<bool>,
    unk_long: Option<u8>,
}

const LONG_POS: [[&str; 6]; 3] = [
    ["動詞", "非自立可能", "*", "*", "五段-ワア行", "連用形-促音便"],
    ["動詞", "非自立可能", "*", "*", "五段-ワア行a", "連用形-促音便"],
    ["動詞", "非自立可能", "*", "*", "五段-ワア行ab", "連用形-促音便"],
];

fn shaped_pos(kind: u8) -> Vec<&'static str> {
    match kind {
        0 => vec![P_NOUN[0]],
        1 => vec![],
        // five components, the first of which contains a comma: joined with commas it reads like P_NOUN
        3 => vec!["名詞,普通名詞", "一般", "*", "*", "*"],
        _ => {
            let mut v = P_NOUN.to_vec();
            v.push("*");
            v
        }
    }
}

const P_ABSENT: [&str; 6] = ["無い", "品詞", "*", "*", "*", "*"];

impl RectSpace {
    fn cfg_of(&self, s: &[u16]) -> Cfg {
        let mut c = Cfg { simple: (0, 0, 100), regex: (0, 0, 200), unk: (0, 0, 300), inhibit: (0, 0), simple_pos: None, regex_pos: None, unk_pos: None, simple_shape: None, regex_shape: None, unk_twin: None, unk_long: None };
        for &i in s {
            let (p, v) = &self.devs[i as usize];
            match p {
                Param::SimpleLeft => c.simple.0 = *v,
                Param::SimpleRight => c.simple.1 = *v,
                Param::SimpleCost => c.simple.2 = *v,
                Param::RegexLeft => c.regex.0 = *v,
                Param::RegexRight => c.regex.1 = *v,
                Param::RegexCost => c.regex.2 = *v,
                Param::UnkLeft => c.unk.0 = *v,
                Param::UnkRight => c.unk.1 = *v,
                Param::UnkCost => c.unk.2 = *v,
                Param::InhibitLeft => c.inhibit.0 = *v,
                Param::InhibitRight => c.inhibit.1 = *v,
                Param::SimplePosAbsent(a) => c.simple_pos = Some(*a),
                Param::RegexPosAbsent(a) => c.regex_pos = Some(*a),
                Param::UnkPosAbsent(a) => c.unk_pos = Some(*a),
                Param::SimplePosShape(k, a) => c.simple_shape = Some((*k, *a)),
                Param::RegexPosShape(k, a) => c.regex_shape = Some((*k, *a)),
                Param::UnkTwinPos(a) => c.unk_twin = Some(*a),
                Param::UnkLongLine(k) => c.unk_long = Some(*k),
            }
        }
        // a shape deviation replaces the provider's POS list altogether
        if c.simple_shape.is_some() {
            c.simple_pos = None;
        }
        if c.regex_shape.is_some() {
            c.regex_pos = None;
        }
        // the twin line shares the plugin's userPOS setting with the first line
        if c.unk_twin.is_some() {
            c.unk_pos = None;
        }
        if c.unk_long.is_some() {
            c.unk_pos = None;
        }
        c
    }

    /// reference verdict: must the configuration be accepted?
    fn in_range(&self, c: &Cfg) -> Result<(), String> {
        let (n, m) = (self.n as i64, self.m as i64);
        let id_ok = |name: &str, left: i64, right: i64, cost: i64| -> Result<(), String> {
            // a node's left id is the second index of cost(prev.right_id, next.left_id)
            if left < 0 || left >= m {
                return Err(format!("{} leftId {} does not index a column of the {}x{} matrix (needs 0..{})", name, left, n, m, m));
            }
            if right < 0 || right >= n {
                return Err(format!("{} rightId {} does not index a row of the {}x{} matrix (needs 0..{})", name, right, n, m, n));
            }
            if cost < -32768 || cost > 32767 {
                return Err(format!("{} cost {} does not fit the cost type", name, cost));
            }
            Ok(())
        };
        id_ok("SimpleOov", c.simple.0, c.simple.1, c.simple.2)?;
        id_ok("RegexOov", c.regex.0, c.regex.1, c.regex.2)?;
        id_ok("unk.def", c.unk.0, c.unk.1, c.unk.2)?;
        if c.inhibit.0 < 0 || c.inhibit.0 >= n || c.inhibit.1 < 0 || c.inhibit.1 >= m {
            return Err(format!("inhibitPair ({}, {}) is outside the {}x{} matrix", c.inhibit.0, c.inhibit.1, n, m));
        }
        // providers are set up in the order regex, MeCab, simple; a part of speech registered by an
        // earlier provider (userPOS allow) exists for the later ones
        // a list that has not exactly six components is not a part of speech of the dictionary
        for (name, sh) in [("RegexOov", c.regex_shape), ("SimpleOov", c.simple_shape)] {
            if let Some((k, false)) = sh {
                return Err(format!("{} part of speech {:?} is not in the dictionary and user-defined POS are not allowed", name, shaped_pos(k)));
            }
        }
        if c.unk_twin == Some(false) {
            return Err("the part of speech of the second unk.def line is not in the dictionary and user-defined POS are not allowed".to_string());
        }
        let mut registered = false;
        for (name, p) in [("RegexOov", c.regex_pos), ("unk.def", c.unk_pos), ("SimpleOov", c.simple_pos)] {
            match p {
                Some(true) => registered = true,
                Some(false) if !registered => {
                    return Err(format!("{} part of speech is not in the dictionary and user-defined POS are not allowed", name));
                }
                _ => {}
            }
        }
        Ok(())
    }

    /// with user-defined POS allowed, a list of the wrong length is outside the statement: the
    /// verdict is not compared (no panic, and a successful load must still analyse)
    fn undetermined(&self, c: &Cfg) -> bool {
        matches!(c.regex_shape, Some((_, true))) || matches!(c.simple_shape, Some((_, true)))
    }

    fn plugins_of(&self, c: &Cfg) -> (Value, String) {
        let pos_of_opt = |p: Option<bool>| -> (Vec<&str>, Option<&str>) {
            match p {
                None => (P_NOUN.to_vec(), None),
                Some(true) => (P_ABSENT.to_vec(), Some("allow")),
                Some(false) => (P_ABSENT.to_vec(), Some("forbid")),
            }
        };
        let (mut sp, mut sa) = pos_of_opt(c.simple_pos);
        if let Some((k, a)) = c.simple_shape {
            sp = shaped_pos(k);
            sa = Some(if a { "allow" } else { "forbid" });
        }
        let mut simple = json!({"class": "com.worksap.nlp.sudachi.SimpleOovPlugin", "oovPOS": sp, "leftId": c.simple.0, "rightId": c.simple.1, "cost": c.simple.2});
        if let Some(a) = sa {
            simple["userPOS"] = json!(a);
        }
        let (mut rp, mut ra) = pos_of_opt(c.regex_pos);
        if let Some((k, a)) = c.regex_shape {
            rp = shaped_pos(k);
            ra = Some(if a { "allow" } else { "forbid" });
        }
        let mut regex = json!({"class": "com.worksap.nlp.sudachi.RegexOovProvider", "oovPOS": rp, "leftId": c.regex.0, "rightId": c.regex.1, "cost": c.regex.2, "regex": "[a-z0-9]+", "boundaries": "relaxed"});
        if let Some(a) = ra {
            regex["userPOS"] = json!(a);
        }
        let (up, mut ua) = pos_of_opt(c.unk_pos);
        if let Some(a) = c.unk_twin {
            ua = Some(if a { "allow" } else { "forbid" });
        }
        let mut mecab = json!({"class": "com.worksap.nlp.sudachi.MeCabOovPlugin", "charDef": "char.def", "unkDef": "unk_c20.def"});
        if let Some(a) = ua {
            mecab["userPOS"] = json!(a);
        }
        let up: Vec<&str> = match c.unk_long {
            Some(k) => LONG_POS[k as usize % 3].to_vec(),
            None => up,
        };
        // two valid lines first: they use the largest legal left id and the largest legal right id (different numbers
        // when the matrix is not square), so the ids of the line under test have been seen before - in the other role
        let mut unk = format!("KANJI,{},0,500,{}\nKANJI,0,{},501,{}\n", self.m - 1, P_NOUN.join(","), self.n - 1, P_NOUN.join(","));
        unk.push_str(&format!("HIRAGANA,{},{},{},{}\n", c.unk.0, c.unk.1, c.unk.2, up.join(",")));
        if c.unk_twin.is_some() {
            let mut twin: Vec<&str> = P_NOUN.to_vec();
            twin[5] = "別";
            unk.push_str(&format!("KATAKANA,0,0,400,{}\n", twin.join(",")));
        }
        let plugins = json!({
            "oovProviderPlugin": [regex, mecab, simple],
            // the pair under test sits between two valid pairs (a check of the list's extremes only must not pass)
            "connectionCostPlugin": [{"class": "com.worksap.nlp.sudachi.InhibitConnectionPlugin", "inhibitPair": [[0, 0], [c.inhibit.0, c.inhibit.1], [self.n - 1, self.m - 1]]}],
        });
        (plugins, unk)
    }
}

fn probe_texts() -> Vec<&'static str> {
    vec!["x", "あ", "東", "x東", "東x", "東x東", "あ東", "東あ", "xあ東あx", "東東", "ab1東あいう!"]
}

impl Space for RectSpace {
    type State = Vec<u16>;
    fn name(&self) -> String {
        format!("config/matrix-{}x{}", self.n, self.m)
    }
    fn init(&self) -> Vec<Vec<u16>> {
        vec![vec![]]
    }
    fn next(&self, s: &Vec<u16>, out: &mut Vec<Vec<u16>>) {
        if s.len() >= self.max_devs {
            return;
        }
        let start = s.last().map(|&l| l as usize + 1).unwrap_or(0);
        for i in start..self.devs.len() {
            let same_param = |a: &Param, b: &Param| std::mem::discriminant(a) == std::mem::discriminant(b);
            if s.iter().any(|&j| same_param(&self.devs[j as usize].0, &self.devs[i].0)) {
                continue;
            }
            let mut n = s.clone();
            n.push(i as u16);
            out.push(n);
        }
    }
    fn check(&self, s: &Vec<u16>) -> Outcome {
        let mut o = Outcome::new();
        o.evaluations = 1;
        let c = self.cfg_of(s);
        let verdict = self.in_range(&c);
        let undetermined = verdict.is_ok() && self.undetermined(&c);
        let (plugins, unk) = self.plugins_of(&c);
        // every state writes its own unk.def (file name unique per thread)
        let tid = format!("{:?}", std::thread::current().id()).replace(|ch: char| !ch.is_ascii_digit(), "");
        let unk_name = format!("unk_c20_{}.def", tid);
        std::fs::write(self.dir.join(&unk_name), &unk).expect("write unk.def");
        let mut plugins = plugins;
        plugins["oovProviderPlugin"][1]["unkDef"] = json!(unk_name);
        let ctx = format!("[matrix {}x{}] simple={:?} regex={:?} unk.def={:?} inhibitPair={:?} pos(simple,regex,unk)={:?} pos-shape(simple,regex)={:?} second-unk-line={:?} long-unk-line={:?}", self.n, self.m, c.simple, c.regex, c.unk, c.inhibit, (c.simple_pos, c.regex_pos, c.unk_pos), (c.simple_shape, c.regex_shape), c.unk_twin, c.unk_long);
        let r = catch(|| load(&self.dir, &plugins, self.system.clone(), vec![]));
        match r {
            Err(p) => o.fail(Failure::panic(&format!("{} loading", ctx), &p)),
            Ok(Err(_)) => {
                o.count("rejected", 1);
                if verdict.is_ok() && !undetermined {
                    o.fail(Failure::new("valid-configuration-rejected", format!("{}: every value is in range but loading failed", ctx)));
                }
                o.nontrivial = true;
            }
            Ok(Ok(dict)) => {
                o.count("accepted", 1);
                if let Err(why) = &verdict {
                    o.fail(Failure::new("out-of-range-accepted", format!("{}: loading succeeded although {}", ctx, why)));
                }
                let dict: Dict = Arc::new(dict);
                // matrix: only the inhibited cell may differ
                let r2 = catch(|| {
                    let mut f = Vec::new();
                    let cm = dict.grammar().conn_matrix();
                    for l in 0..self.n {
                        for r in 0..self.m {
                            let v = cm.cost(l as u16, r as u16) as i32;
                            let inhibited = (c.inhibit.0 == l as i64 && c.inhibit.1 == r as i64) || (l == 0 && r == 0) || (l == self.n - 1 && r == self.m - 1);
                            let exp = if inhibited { 32767 } else { self.matrix.cells[l][r] };
                            if v != exp {
                                f.push(Failure::new("wrong-matrix-cell-edited", format!("{}: cost({}, {}) = {} after loading, expected {}", ctx, l, r, v, exp)));
                            }
                        }
                    }
                    f
                });
                match r2 {
                    Ok(f) => o.failures.extend(f),
                    Err(p) => o.fail(Failure::panic(&format!("{} reading the matrix", ctx), &p)),
                }
                // analysis never indexes outside the matrix (debug assertions are on)
                if verdict.is_ok() || o.failures.is_empty() {
                    for t in probe_texts() {
                        o.evaluations += 1;
                        match catch(|| analyze(&dict, Mode::C, t)) {
                            Err(p) => {
                                o.fail(Failure::panic(&format!("{} analysing {:?}", ctx, t), &p));
                                break;
                            }
                            Ok(Err(e)) => {
                                o.fail(Failure::new("analysis-error", format!("{} analysing {:?}: {:?}", ctx, t, e)));
                                break;
                            }
                            Ok(Ok(_)) => {}
                        }
                    }
                }
            }
        }
        o.observe(s);
        o
    }
    fn describe(&self, s: &Vec<u16>) -> Value {
        json!({"matrix": [self.n, self.m], "deviations": s, "values": s.iter().map(|&i| format!("{:?}={}", self.devs[i as usize].0, self.devs[i as usize].1)).collect::<Vec<_>>()})
    }
    fn parse(&self, v: &Value) -> Option<Vec<u16>> {
        Some(v["deviations"].as_array()?.iter().filter_map(|x| x.as_u64().map(|n| n as u16)).collect())
    }
}

fn rect_space(n: usize, m: usize, max_devs: usize) -> RectSpace {
    let mut spec = spec_min(&format!("W-rect-{}x{}", n, m));
    spec.matrix = Matrix::generate(n, m, |l, r| if l == 0 && r == 0 { 0 } else { (l * 10 + r) as i32 + 1 });
    // lexicon rows use ids valid for this shape: left id < m, right id < n
    spec.system = vec![
        Row::new("東", 0, 0, 500, P_NOUN),
        Row::new("京", (m - 1) as i32, (n - 1) as i32, 600, P_NOUN),
        Row::new("い", 0, (n - 1) as i32, 700, P_NOUN),
        Row::new("買っ", 0, 0, 800, LONG_POS[0]),
        Row::new("買a", 0, 0, 800, LONG_POS[1]),
        Row::new("買ab", 0, 0, 800, LONG_POS[2]),
    ];
    let dir = write_world_files(&spec);
    let system = compile_system(&spec.matrix.to_text(), &rows_to_csv(&spec.system)).unwrap_or_else(|e| panic!("rect world {}x{}: {}", n, m, e));
    let (ni, mi) = (n as i64, m as i64);
    let mut vals: Vec<i64> = vec![-1, 0, ni - 1, ni, ni + 1, mi - 1, mi, mi + 1, 32767, 32768, 65535, 65536, -32768, -32769];
    vals.sort();
    vals.dedup();
    let mut devs = Vec::new();
    for p in [Param::SimpleLeft, Param::SimpleRight, Param::SimpleCost, Param::RegexLeft, Param::RegexRight, Param::RegexCost, Param::UnkLeft, Param::UnkRight, Param::UnkCost, Param::InhibitLeft, Param::InhibitRight] {
        for &v in &vals {
            // inhibitPair members are parsed as i16 by serde: values beyond fail to parse, keep them too
            devs.push((p.clone(), v));
        }
    }
    for a in [true, false] {
        devs.push((Param::SimplePosAbsent(a), 0));
        devs.push((Param::RegexPosAbsent(a), 0));
        devs.push((Param::UnkPosAbsent(a), 0));
        devs.push((Param::UnkTwinPos(a), 0));
        if a {
            for k in 0..3u8 {
                devs.push((Param::UnkLongLine(k), 0));
            }
        }
        for k in 0..4u8 {
            devs.push((Param::SimplePosShape(k, a), 0));
            devs.push((Param::RegexPosShape(k, a), 0));
        }
    }
    RectSpace { n, m, dir, system, matrix: spec.matrix.clone(), devs, max_devs }
}

pub fn main(tier: Tier, replay: Option<String>) -> i32 {
    let mut rep = Report::new("C20", "model_checking", tier);
    rep.rule = "states = sets of parameter deviations (baseline, every single deviation, every pair on different parameters; triples for the square shapes in the thorough tier) of a configuration with RegexOovProvider + MeCabOovPlugin + SimpleOovPlugin + InhibitConnectionPlugin; values {-1,0,n-1,n,n+1,m-1,m,m+1,32767,32768,65535,65536,-32768,-32769} for every leftId / rightId / cost / unk.def field / inhibitPair member, POS absent x userPOS allow/forbid, POS lists of the wrong length (one component, empty, seven) in the JSON providers x allow/forbid; matrices 1x1, 3x3, 2x3, 3x2. Loading must fail exactly when the reference says a value is out of range; after a successful load only the inhibited cell differs from the matrix text and the probe texts analyse without panic (debug assertions on); non-trivial = the configuration was rejected".into();
    rep.assumptions = vec!["'indexes an existing row or column' is decided by the dimension the value is used for in ConnectionMatrix::cost(prev.right_id, next.left_id): a left id is bounded by the number of columns, a right id by the number of rows".into()];
    let mut jobs: Vec<Box<dyn AnyJob>> = Vec::new();
    for (n, m) in [(3usize, 3usize), (1, 1), (2, 3), (3, 2)] {
        let max = if tier == Tier::Thorough && n == m { 3 } else { 2 };
        let sp = rect_space(n, m, max);
        let b = json!({"parameters": 14, "deviation_values": sp.devs.len(), "max_simultaneous": max});
        jobs.push(job(sp, Strategy::Bfs, Some(tier.pick(40, 3000)), b));
    }
    // the same configuration and the same definition files loaded with one dictionary after another: a value that
    // indexes the larger matrix and not the smaller one has to be accepted with the former and rejected with the
    // latter, whatever was loaded before in the process
    {
        let big = Arc::new(rect_space(9, 9, 1));
        let small = Arc::new(rect_space(3, 3, 1));
        let mut cases: Vec<(u8, Vec<bool>)> = Vec::new();
        for p in 0..8u8 {
            for order in [vec![true, false], vec![false, true], vec![true, false, true], vec![false, false], vec![true, true, false]] {
                cases.push((p, order));
            }
        }
        let n = cases.len();
        jobs.push(job(
            CaseSpace {
                label: "config/one-set-of-files-several-dictionaries".into(),
                cases,
                check_fn: Box::new(move |(p, order): &(u8, Vec<bool>)| {
                    let mut o = Outcome::new();
                    o.nontrivial = true;
                    let mut c = big.cfg_of(&[]);
                    let v = 7i64;
                    let pname = ["unk.def left id", "unk.def right id", "SimpleOov leftId", "SimpleOov rightId", "RegexOov leftId", "RegexOov rightId", "inhibitPair first member", "inhibitPair second member"][*p as usize];
                    match p {
                        0 => c.unk.0 = v,
                        1 => c.unk.1 = v,
                        2 => c.simple.0 = v,
                        3 => c.simple.1 = v,
                        4 => c.regex.0 = v,
                        5 => c.regex.1 = v,
                        6 => c.inhibit.0 = v,
                        _ => c.inhibit.1 = v,
                    }
                    // one definition file for the whole sequence, written once
                    let tid = format!("{:?}", std::thread::current().id()).replace(|ch: char| !ch.is_ascii_digit(), "");
                    let unk_name = format!("unk_c20_seq_{}.def", tid);
                    let (_, unk) = big.plugins_of(&c);
                    std::fs::write(big.dir.join(&unk_name), &unk).expect("write unk.def");
                    for (step, &use_big) in order.iter().enumerate() {
                        o.evaluations += 1;
                        let rs = if use_big { &big } else { &small };
                        let verdict = rs.in_range(&c);
                        let (mut plugins, _) = rs.plugins_of(&c);
                        plugins["oovProviderPlugin"][1]["unkDef"] = json!(unk_name);
                        let ctx = format!("{} = {}, load {} of the sequence {:?} (true = dictionary with a 9x9 matrix, false = 3x3), same configuration files", pname, v, step + 1, order);
                        match catch(|| load(&big.dir, &plugins, rs.system.clone(), vec![])) {
                            Err(pn) => o.fail(Failure::panic(&format!("{} loading", ctx), &pn)),
                            Ok(Err(_)) => {
                                o.count("rejected", 1);
                                if verdict.is_ok() {
                                    o.fail(Failure::new("valid-configuration-rejected", format!("{}: every value is in range but loading failed", ctx)));
                                }
                            }
                            Ok(Ok(dict)) => {
                                o.count("accepted", 1);
                                if let Err(why) = &verdict {
                                    o.fail(Failure::new("out-of-range-accepted", format!("{}: loading succeeded although {}", ctx, why)));
                                } else {
                                    let dict: Dict = Arc::new(dict);
                                    for t in probe_texts() {
                                        if let Err(pn) = catch(|| analyze(&dict, Mode::C, t)) {
                                            o.fail(Failure::panic(&format!("{} analysing {:?}", ctx, t), &pn));
                                            break;
                                        }
                                    }
                                }
                            }
                        }
                    }
                    o.observe(&(*p, order.clone()));
                    o
                }),
                describe_fn: Box::new(|(p, order): &(u8, Vec<bool>)| json!({"parameter": p, "dictionaries_in_turn": order})),
            },
            Strategy::Bfs,
            Some(120),
            json!({"sequences": n, "matrices": ["9x9", "3x3"], "value": 7}),
        ));
    }
    drive(rep, jobs, replay)
}
