//! Morpheme-level invariants shared by C01 (partition / lossless surfaces), C03 (accessors are
//! safe) and C08 (code-point offsets).

use crate::common::findings::Failure;
use crate::common::refmodel::Tok;

/// C01 clauses on a token sequence that must tile `[lo, hi)` of `text`
pub fn partition_failures(text: &str, toks: &[Tok], lo: usize, hi: usize, ctx: &str) -> Vec<Failure> {
    let mut f = Vec::new();
    if toks.is_empty() {
        return f;
    }
    if toks[0].begin != lo {
        f.push(Failure::new("first-begin", format!("[{}] first token begins at {} instead of {} in {:?}", ctx, toks[0].begin, lo, text)));
    }
    if toks[toks.len() - 1].end != hi {
        f.push(Failure::new("last-end", format!("[{}] last token ends at {} instead of {} in {:?}", ctx, toks[toks.len() - 1].end, hi, text)));
    }
    let mut concat = String::new();
    for (i, t) in toks.iter().enumerate() {
        if t.begin > t.end {
            f.push(Failure::new("begin-after-end", format!("[{}] token {} has range {}..{} in {:?}", ctx, i, t.begin, t.end, text)));
            continue;
        }
        if i > 0 && toks[i - 1].end != t.begin {
            f.push(Failure::new("not-contiguous", format!("[{}] token {} begins at {} but previous ended at {} in {:?}", ctx, i, t.begin, toks[i - 1].end, text)));
        }
        if t.end > text.len() || !text.is_char_boundary(t.begin) || !text.is_char_boundary(t.end) {
            f.push(Failure::new("not-char-boundary", format!("[{}] token {} range {}..{} is not on character boundaries of {:?}", ctx, i, t.begin, t.end, text)));
            continue;
        }
        if t.surface != text[t.begin..t.end] {
            f.push(Failure::new("surface-mismatch", format!("[{}] token {} surface {:?} != text[{}..{}]={:?} in {:?}", ctx, i, t.surface, t.begin, t.end, &text[t.begin..t.end], text)));
        }
        concat.push_str(&t.surface);
    }
    if f.is_empty() && lo <= hi && hi <= text.len() && concat != text[lo..hi] {
        f.push(Failure::new("concat-mismatch", format!("[{}] concatenated surfaces {:?} != {:?}", ctx, concat, &text[lo..hi])));
    }
    f
}

/// C08 clause: code-point offsets agree with byte offsets
pub fn codepoint_failures(text: &str, toks: &[Tok], ctx: &str) -> Vec<Failure> {
    let mut f = Vec::new();
    for (i, t) in toks.iter().enumerate() {
        if t.end > text.len() || !text.is_char_boundary(t.begin) || !text.is_char_boundary(t.end) || t.begin > t.end {
            continue; // reported by the partition clauses
        }
        let bc = text[..t.begin].chars().count();
        let ec = text[..t.end].chars().count();
        if t.begin_c != bc || t.end_c != ec {
            f.push(Failure::new("codepoint-offset", format!("[{}] token {} bytes {}..{} has code-point offsets {}..{} but {}..{} expected in {:?}", ctx, i, t.begin, t.end, t.begin_c, t.end_c, bc, ec, text)));
            continue;
        }
        let by_cp: String = text.chars().skip(t.begin_c).take(t.end_c - t.begin_c).collect();
        if by_cp != t.surface {
            f.push(Failure::new("codepoint-slice", format!("[{}] token {}: slicing by code points gives {:?}, surface is {:?}", ctx, i, by_cp, t.surface)));
        }
    }
    f
}
