//! C19 – the Python bindings and the CLI report exactly what the core library computes (E4).
//!
//! The subjects run out of process: the real `sudachi` binary and the real `sudachipy` extension,
//! both built from /repo's working tree.  Inputs are enumerated exhaustively within a bound (all
//! short multi-line files x flag sets; all Python call sequences up to a depth); the verdict is
//! equality with what the library computes in-process for the same world.

use crate::common::evidence::{verif_root, Report, Tier};
use crate::common::findings::Failure;
use crate::common::refmodel::*;
use crate::common::worlds::*;
use serde_json::{json, Value};
use std::path::{Path, PathBuf};
use std::process::Command;
use std::sync::Arc;
use sudachi::analysis::stateless_tokenizer::DictionaryAccess;
use sudachi::analysis::Mode;
use sudachi::dic::subset::InfoSubset;
use sudachi::prelude::MorphemeList;
use sudachi::sentence_splitter::{SentenceSplitter, SplitSentences};

pub fn repo_target_dir() -> PathBuf {
    verif_root().join("target-repo")
}

/// build the CLI and the Python extension from /repo's working tree (no-op when unchanged)
pub fn build_subjects() -> Result<(PathBuf, PathBuf), String> {
    let target = repo_target_dir();
    let out = Command::new("cargo")
        .args(["build", "--offline", "-p", "sudachi-cli", "-p", "sudachipy"])
        .current_dir(repo_root())
        .env("CARGO_TARGET_DIR", &target)
        .env("CARGO_NET_OFFLINE", "true")
        .output()
        .map_err(|e| format!("cannot run cargo: {}", e))?;
    if !out.status.success() {
        let err = String::from_utf8_lossy(&out.stderr);
        let tail: Vec<&str> = err.lines().rev().take(30).collect();
        return Err(format!("building sudachi-cli / sudachipy from /repo failed:\n{}", tail.into_iter().rev().collect::<Vec<_>>().join("\n")));
    }
    let cli = target.join("debug").join("sudachi");
    let so = target.join("debug").join("libsudachipy.so");
    if !cli.exists() || !so.exists() {
        return Err(format!("expected build products missing: {} / {}", cli.display(), so.display()));
    }
    Ok((cli, so))
}

fn assemble_python(so: &Path) -> Result<PathBuf, String> {
    let root = work_dir().join("pyroot");
    let pkg = root.join("sudachipy");
    let _ = std::fs::remove_dir_all(&root);
    std::fs::create_dir_all(&root).map_err(|e| e.to_string())?;
    let src = repo_root().join("python").join("py_src").join("sudachipy");
    copy_dir(&src, &pkg).map_err(|e| format!("copying {}: {}", src.display(), e))?;
    std::fs::copy(so, pkg.join("sudachipy.so")).map_err(|e| e.to_string())?;
    Ok(root)
}

fn copy_dir(from: &Path, to: &Path) -> std::io::Result<()> {
    std::fs::create_dir_all(to)?;
    for e in std::fs::read_dir(from)? {
        let e = e?;
        let p = e.path();
        let t = to.join(e.file_name());
        if p.is_dir() {
            copy_dir(&p, &t)?;
        } else {
            std::fs::copy(&p, &t)?;
        }
    }
    Ok(())
}

/// write dictionaries and a configuration file that both subjects can load
fn write_disk_world(w: &World) -> Result<(PathBuf, PathBuf), String> {
    let dir = w.dir.clone();
    std::fs::write(dir.join("system.dic"), &w.system_bytes).map_err(|e| e.to_string())?;
    let mut users = Vec::new();
    for (i, u) in w.user_bytes.iter().enumerate() {
        let name = format!("user{}.dic", i);
        std::fs::write(dir.join(&name), u).map_err(|e| e.to_string())?;
        users.push(name);
    }
    let mut cfg = json!({
        "systemDict": "system.dic",
        "userDict": users,
        "characterDefinitionFile": "char.def",
    });
    for k in ["inputTextPlugin", "oovProviderPlugin", "pathRewritePlugin", "connectionCostPlugin"] {
        if let Some(v) = w.spec.plugins.get(k) {
            cfg[k] = v.clone();
        }
    }
    let cfg_path = dir.join("sudachi.json");
    std::fs::write(&cfg_path, serde_json::to_string_pretty(&cfg).unwrap()).map_err(|e| e.to_string())?;
    Ok((cfg_path, dir))
}

// ---- CLI ---------------------------------------------------------------------------------------

#[derive(Clone, Debug)]
struct Flags {
    name: &'static str,
    args: Vec<&'static str>,
    mode: Mode,
    all: bool,
    wakati: bool,
    split: bool,
    /// 0: input file argument -> stdout, 1: stdin -> stdout, 2: input file argument -> `-o` file
    route: u8,
}

fn flag_sets() -> Vec<Flags> {
    vec![
        Flags { name: "default", args: vec![], mode: Mode::C, all: false, wakati: false, split: true, route: 0 },
        Flags { name: "-a", args: vec!["-a"], mode: Mode::C, all: true, wakati: false, split: true, route: 0 },
        Flags { name: "-w", args: vec!["-w"], mode: Mode::C, all: false, wakati: true, split: true, route: 0 },
        Flags { name: "-m A", args: vec!["-m", "A"], mode: Mode::A, all: false, wakati: false, split: true, route: 0 },
        Flags { name: "-m B -a", args: vec!["-m", "B", "-a"], mode: Mode::B, all: true, wakati: false, split: true, route: 0 },
        Flags { name: "--split-sentences=no", args: vec!["--split-sentences=no"], mode: Mode::C, all: false, wakati: false, split: false, route: 0 },
        Flags { name: "-w --split-sentences=no -m A", args: vec!["-w", "--split-sentences=no", "-m", "A"], mode: Mode::A, all: false, wakati: true, split: false, route: 0 },
        Flags { name: "default, text on stdin", args: vec![], mode: Mode::C, all: false, wakati: false, split: true, route: 1 },
        Flags { name: "-a -o <file>", args: vec!["-a"], mode: Mode::C, all: true, wakati: false, split: true, route: 2 },
    ]
}

fn format_tokens(toks: &[Tok], f: &Flags, out: &mut String) {
    if f.wakati {
        if toks.is_empty() {
            out.push('\n');
            return;
        }
        let s: Vec<&str> = toks.iter().map(|t| t.surface.as_str()).collect();
        out.push_str(&s.join(" "));
        out.push('\n');
    } else {
        for t in toks {
            out.push_str(&format!("{}\t{}\t{}", t.surface, t.pos.join(","), t.normalized));
            if f.all {
                out.push_str(&format!("\t{}\t{}\t{}\t{:?}", t.dictionary, t.reading, t.dic_id, t.synonyms));
                if t.is_oov {
                    out.push_str("\t(OOV)");
                }
            }
            out.push('\n');
        }
        out.push_str("EOS\n");
    }
}

/// what the documented behaviour prints for a file
fn cli_reference(dict: &Dict, content: &str, f: &Flags) -> Result<String, String> {
    let mut out = String::new();
    // lines as read_line yields them
    let mut rest = content;
    while !rest.is_empty() {
        let (line, tail) = match rest.find('\n') {
            Some(i) => (&rest[..=i], &rest[i + 1..]),
            None => (rest, ""),
        };
        rest = tail;
        // analysed without its line terminator
        let mut l = line;
        if l.ends_with('\n') {
            l = &l[..l.len() - 1];
            if l.ends_with('\r') {
                l = &l[..l.len() - 1];
            }
        }
        if f.split {
            let sp = SentenceSplitter::new().with_checker(dict.lexicon());
            for (_, sent) in sp.split(l) {
                let toks = analyze(dict, f.mode, sent).map_err(|e| format!("{:?}", e))?;
                format_tokens(&toks, f, &mut out);
            }
        } else {
            let toks = analyze(dict, f.mode, l).map_err(|e| format!("{:?}", e))?;
            format_tokens(&toks, f, &mut out);
        }
    }
    Ok(out)
}

fn cli_files(max_lines: usize) -> Vec<String> {
    // (the last body ends in a character that is rewritten to a word with two units: in modes A and B the line ends
    // with a morpheme of zero width in the original text)
    let bodies = ["", "東京都", "1,000円", "あ。い", " ", "京都・・・東京", "あ<br><br>い", "京都㍿"];
    let terms = ["\n", "\r\n"];
    let mut all: Vec<String> = Vec::new();
    let mut cur: Vec<String> = vec![String::new()];
    for _ in 0..max_lines {
        let mut nxt = Vec::new();
        for c in &cur {
            for b in bodies {
                for t in terms {
                    nxt.push(format!("{}{}{}", c, b, t));
                }
                // last line without terminator, also one that ends with a lone carriage return
                // (which is then part of the text, not a terminator)
                if !b.is_empty() {
                    all.push(format!("{}{}", c, b));
                    if b != " " {
                        all.push(format!("{}{}\r", c, b));
                    }
                }
            }
        }
        all.extend(nxt.iter().cloned());
        cur = nxt;
    }
    all.push(String::new());
    // one line longer than 65535 bytes made of short sentences (72,001 bytes: no byte-count limit
    // of a reader falls on a character boundary), with and without its terminator
    let long_line = format!("a{}", "東京都に行く。".repeat(72_000 / 21 + 1));
    all.push(format!("{}\n", long_line));
    all.push(format!("京都\n{}", long_line));
    all.sort();
    all.dedup();
    all
}

// ---- Python oracle -----------------------------------------------------------------------------------

fn tok_json(t: &Tok) -> Value {
    json!({
        "begin": t.begin_c, "end": t.end_c, "raw_surface": t.surface, "is_oov": t.is_oov, "word_id": t.word_id,
        "dictionary_id": t.dic_id, "pos": t.pos, "normalized_form": t.normalized, "dictionary_form": t.dictionary,
        "reading_form": t.reading, "synonym_group_ids": t.synonyms,
        "pos_id": t.pos_id, "total_cost": t.total_cost,
        "wi": {"surface": t.wi_surface, "head_word_length": t.head_word_length, "a_unit_split": t.a_split, "b_unit_split": t.b_split,
               "word_structure": t.word_structure, "dictionary_form_word_id": t.dic_form_wid},
    })
}

fn python_oracle(dict: &Dict, texts: &[&str], queries: &[&str]) -> Result<Value, String> {
    let mut analyses = serde_json::Map::new();
    for t in texts {
        let mut per_mode = serde_json::Map::new();
        for mode in MODES {
            let list = analyze_list(dict, mode, None, t).map_err(|e| format!("{:?}", e))?;
            let toks = toks_of(&list);
            let mut arr = Vec::new();
            for (i, tk) in toks.iter().enumerate() {
                let mut v = tok_json(tk);
                for (name, sm) in [("split_A", Mode::A), ("split_B", Mode::B)] {
                    let mut out = MorphemeList::empty(dict.clone());
                    let did = list.get(i).split_into(sm, &mut out).map_err(|e| e.to_string())?;
                    let sub: Vec<Value> = if did { toks_of(&out).iter().map(tok_json).collect() } else { vec![] };
                    v[name] = json!(sub);
                }
                arr.push(v);
            }
            per_mode.insert(mode_name(mode).to_string(), json!(arr));
        }
        analyses.insert(t.to_string(), Value::Object(per_mode));
    }
    let mut lookups = serde_json::Map::new();
    for q in queries {
        let mut list = MorphemeList::empty(dict.clone());
        list.lookup(q, InfoSubset::all()).map_err(|e| e.to_string())?;
        lookups.insert(q.to_string(), json!(toks_of(&list).iter().map(tok_json).collect::<Vec<_>>()));
    }
    Ok(json!({"texts": texts[..4.min(texts.len())], "extra_texts": texts[4.min(texts.len())..], "queries": queries, "analyses": analyses, "lookups": lookups}))
}

pub fn setup() -> i32 {
    match build_subjects() {
        Ok((cli, so)) => {
            println!("setup: built {} and {}", cli.display(), so.display());
            0
        }
        Err(e) => {
            eprintln!("setup: {}", e);
            2
        }
    }
}

pub fn main(tier: Tier, replay: Option<String>) -> i32 {
    let mut rep = Report::new("C19", "model_checking", tier);
    rep.rule = "CLI: every file of at most max_lines lines over the bodies {empty, 東京都, 1,000円, あ。い, blank, 京都・・・東京, あ<br><br>い, 京都㍿} x terminators {LF, CRLF, none on the last line} x 9 flag sets (default, -a, -w, -m A, -m B -a, --split-sentences=no, -w with no splitting in mode A, default with the text on stdin, -a with -o <file>) is fed to the real `sudachi` binary; stdout must equal the bytes the library + documented format give for each line without its terminator. Python: every call sequence up to `depth` over tokenize(t) / tokenize(t, mode) / tokenize(t, out=L) / m.split(mode[, out=L2]) / lookup(q[, out=L]) / holding a morpheme across list reuse, for five tokenizer configurations (modes, field subset, projections normalized / reading), on the real extension in a sub-process; every result must equal the library's (JSON oracle), text[begin:end] must be the raw surface, a per-call mode must not stick, and the interpreter must exit normally. non-trivial = the file has more than one line / the sequence has more than one call".into();
    rep.assumptions = vec![
        "the subjects run out of process; enumeration is exhaustive within the bound, the verdict is differential against the in-process library on the same dictionary bytes and configuration".into(),
        "Dictionary.pre_tokenizer needs the `tokenizers` package, which is not installed in this sandbox: that path is not exercised".into(),
        "the Python thread run (tokenizers of one Dictionary on several threads) is a sampled, non-deciding supplement".into(),
    ];
    if let Some(path) = replay {
        eprintln!("C19 replay: re-running the whole quick check (cases are cheap); recorded case: {}", path);
    }
    let (cli, so) = match build_subjects() {
        Ok(x) => x,
        Err(e) => {
            eprintln!("machinery failure: {}", e);
            return 2;
        }
    };
    let world = Arc::new(World::build(spec_user("W-io", 1, true)).expect("W-io"));
    let (cfg_path, res_dir) = match write_disk_world(&world) {
        Ok(x) => x,
        Err(e) => {
            eprintln!("machinery failure: {}", e);
            return 2;
        }
    };
    let dict = world.dict.clone();
    // ---------------- CLI
    let files = cli_files(tier.pick(2, 3));
    let flags = flag_sets();
    let mut cli_fail: Vec<(Value, Failure)> = Vec::new();
    let mut cases = 0u64;
    let mut nontrivial = 0u64;
    let mut distinct = std::collections::HashSet::new();
    let mut samples = Vec::new();
    // all (file, flag set) cases, run on several worker threads (one process per case)
    let mut all_cases: Vec<(usize, String, Flags)> = Vec::new();
    for (fi, content) in files.iter().enumerate() {
        for (fj, f) in flags.iter().enumerate() {
            let _ = fj;
            all_cases.push((fi, content.clone(), f.clone()));
        }
    }
    cases = all_cases.len() as u64;
    nontrivial = all_cases.iter().filter(|(_, c, _)| c.matches('\n').count() > 1).count() as u64;
    let workers = 8usize;
    let results: std::sync::Mutex<Vec<(usize, Value, Option<Failure>, u64, Option<Value>)>> = std::sync::Mutex::new(Vec::new());
    let machinery: std::sync::Mutex<Option<String>> = std::sync::Mutex::new(None);
    std::thread::scope(|sc| {
        for k in 0..workers {
            let all_cases = &all_cases;
            let results = &results;
            let machinery = &machinery;
            let (cli, cfg_path, res_dir, dict) = (&cli, &cfg_path, &res_dir, &dict);
            sc.spawn(move || {
                let input_path = work_dir().join(format!("cli_input_{}.txt", k));
                for (idx, (fi, content, f)) in all_cases.iter().enumerate() {
                    if idx % workers != k {
                        continue;
                    }
                    if machinery.lock().unwrap().is_some() {
                        return;
                    }
                    // without sentence splitting a line beyond the input limit is rejected by the library:
                    // what the tool does then is outside the statement
                    if !f.split && content.lines().any(|l| l.len() > 49149) {
                        continue;
                    }
                    std::fs::write(&input_path, content).expect("write input");
                    let expected = match cli_reference(dict, content, f) {
                        Ok(s) => s,
                        Err(e) => {
                            *machinery.lock().unwrap() = Some(format!("reference failed: {}", e));
                            return;
                        }
                    };
                    let out_path = work_dir().join(format!("cli_output_{}.txt", k));
                    let _ = std::fs::remove_file(&out_path);
                    let mut cmd = Command::new(cli);
                    cmd.arg("-r").arg(cfg_path).arg("-p").arg(res_dir).args(&f.args);
                    let out = match f.route {
                        1 => {
                            use std::process::Stdio;
                            cmd.stdin(Stdio::from(std::fs::File::open(&input_path).expect("open input"))).output()
                        }
                        2 => cmd.arg("-o").arg(&out_path).arg(&input_path).output(),
                        _ => cmd.arg(&input_path).output(),
                    };
                    let state = json!({"file": content, "flags": f.name});
                    match out {
                        Err(e) => {
                            *machinery.lock().unwrap() = Some(format!("cannot run {}: {}", cli.display(), e));
                            return;
                        }
                        Ok(o) => {
                            let got = if f.route == 2 { String::from_utf8_lossy(&std::fs::read(&out_path).unwrap_or_default()).to_string() } else { String::from_utf8_lossy(&o.stdout).to_string() };
                            let fail = if !o.status.success() {
                                let err = String::from_utf8_lossy(&o.stderr);
                                Some(Failure::new("cli-crashed", format!("sudachi {} on file {:?} exited with {:?}: {}", f.name, content, o.status.code(), err.lines().last().unwrap_or(""))))
                            } else if got != expected {
                                Some(Failure::new("cli-output-differs", format!("sudachi {} on file {:?} printed {:?}, the library gives {:?}", f.name, content, got, expected)))
                            } else {
                                None
                            };
                            let sample = if fi % 37 == 5 { Some(json!({"file": content, "flags": f.name, "stdout": got})) } else { None };
                            results.lock().unwrap().push((idx, state, fail, hash_str(&got), sample));
                        }
                    }
                }
            });
        }
    });
    if let Some(m) = machinery.lock().unwrap().take() {
        eprintln!("machinery failure: {}", m);
        return 2;
    }
    let mut res = results.into_inner().unwrap();
    res.sort_by_key(|r| r.0);
    for (_, state, fail, h, sample) in res {
        distinct.insert(h);
        if let Some(sv) = sample {
            if samples.len() < 3 {
                samples.push(sv);
            }
        }
        if let Some(f) = fail {
            if cli_fail.is_empty() {
                cli_fail.push((state, f));
            }
        }
    }
    rep.add_direct("cli/files-x-flags", cases, nontrivial, distinct.len() as u64, samples, cli_fail, json!({"max_lines": tier.pick(2, 3), "files": files.len(), "flag_sets": flags.len()}));
    if rep.has_violation() {
        return rep.finish();
    }
    // ---------------- CLI with a dictionary of many parts of speech (real dictionaries have more
    // than a thousand; ids that agree modulo 256 must not be confused in the POS column)
    {
        let mut mp_fail: Vec<(Value, Failure)> = Vec::new();
        let mut mp_cases = 0u64;
        let mut spec = spec_min("W-io-many-pos");
        let mut lines = String::new();
        let kana: Vec<char> = "かきくけこさしすせそたちつてとなにぬねのはひふへほまみむめも".chars().collect();
        for i in 0..600usize {
            let w: String = [kana[i % 30], kana[(i / 30) % 30], 'ン'].iter().collect();
            let tag = format!("分類{}", i);
            let mut r = Row::new(&w, 1, 1, -20000, P_NOUN);
            r.pos = [tag, "細分".to_string(), "*".to_string(), "*".to_string(), "*".to_string(), "*".to_string()];
            spec.system.push(r);
            lines.push_str(&w);
            lines.push('\n');
        }
        match World::build(spec).map(Arc::new).map_err(|e| e.to_string()).and_then(|w| write_disk_world(&w).map(|p| (w, p))) {
            Err(e) => {
                eprintln!("machinery failure: many-POS world: {}", e);
                return 2;
            }
            Ok((w, (cfgp, resp))) => {
                let input_path = work_dir().join("cli_input_many_pos.txt");
                std::fs::write(&input_path, &lines).expect("write input");
                for f in flags.iter().filter(|f| f.route == 0 && (f.name == "default" || f.name == "-a" || f.name == "-w")) {
                    mp_cases += 1;
                    let expected = match cli_reference(&w.dict, &lines, f) {
                        Ok(s) => s,
                        Err(e) => {
                            eprintln!("machinery failure: reference failed: {}", e);
                            return 2;
                        }
                    };
                    match Command::new(&cli).arg("-r").arg(&cfgp).arg("-p").arg(&resp).args(&f.args).arg(&input_path).output() {
                        Err(e) => {
                            eprintln!("machinery failure: cannot run {}: {}", cli.display(), e);
                            return 2;
                        }
                        Ok(o) => {
                            let got = String::from_utf8_lossy(&o.stdout).to_string();
                            if !o.status.success() {
                                mp_fail.push((json!({"file": "600 one-word lines, 600 parts of speech", "flags": f.name}), Failure::new("cli-crashed", format!("sudachi {} on the 600-POS file exited with {:?}", f.name, o.status.code()))));
                            } else if got != expected {
                                let (gl, el): (Vec<&str>, Vec<&str>) = (got.lines().collect(), expected.lines().collect());
                                let k = gl.iter().zip(el.iter()).position(|(a, b)| a != b).unwrap_or(gl.len().min(el.len()));
                                mp_fail.push((json!({"file": "600 one-word lines, 600 parts of speech", "flags": f.name}), Failure::new("cli-output-differs", format!("sudachi {} on 600 one-word lines over a dictionary with 600 parts of speech: line {} is {:?}, the library gives {:?}", f.name, k, gl.get(k), el.get(k)))));
                            }
                        }
                    }
                }
            }
        }
        let first: Vec<(Value, Failure)> = mp_fail.into_iter().take(1).collect();
        rep.add_direct("cli/dictionary-with-600-parts-of-speech", mp_cases.max(1), mp_cases.max(1), mp_cases.max(1), vec![], first, json!({"words": 600, "parts_of_speech": 600, "flag_sets": ["default", "-a", "-w"]}));
    }
    // ---------------- CLI over configurations of an unusual shape: the same user dictionary listed twice (the library
    // loads it twice, as dictionaries 1 and 2), and listed twice with another one in between
    {
        let mut q_fail: Vec<(Value, Failure)> = Vec::new();
        let mut q_cases = 0u64;
        let w2 = match World::build(spec_user("W-io-layers", 2, true)).map(Arc::new).map_err(|e| e.to_string()).and_then(|w| write_disk_world(&w).map(|p| (w, p))) {
            Ok(x) => x,
            Err(e) => {
                eprintln!("machinery failure: W-io-layers: {}", e);
                return 2;
            }
        };
        let (wl, (cfgp, resp)) = w2;
        let base: Value = serde_json::from_str(&std::fs::read_to_string(&cfgp).expect("read cfg")).expect("cfg json");
        let lines = "東京府に行く\nすだち\nぴらる京都かぼす\n府\n".to_string();
        let input_path = work_dir().join("cli_input_layers.txt");
        std::fs::write(&input_path, &lines).expect("write input");
        for (label, users) in [("listed twice", vec!["user0.dic", "user0.dic"]), ("twice around another", vec!["user0.dic", "user1.dic", "user0.dic"]), ("two, then the first again twice", vec!["user1.dic", "user0.dic", "user0.dic"])] {
            let mut cfg = base.clone();
            cfg["userDict"] = json!(users);
            let path = wl.dir.join(format!("sudachi_{}.json", users.len() * 10 + label.len()));
            std::fs::write(&path, serde_json::to_string_pretty(&cfg).unwrap()).expect("write cfg");
            let lib = sudachi::config::Config::new(Some(path.clone()), Some(resp.clone()), None).map_err(|e| e.to_string()).and_then(|c| sudachi::dic::dictionary::JapaneseDictionary::from_cfg(&c).map_err(|e| e.to_string()));
            let lib: Dict = match lib {
                Ok(d) => Arc::new(d),
                Err(e) => {
                    eprintln!("machinery failure: the library cannot load the configuration '{}': {}", label, e);
                    return 2;
                }
            };
            for f in flags.iter().filter(|f| f.route == 0 && (f.name == "default" || f.name == "-a" || f.name == "-m B -a")) {
                q_cases += 1;
                let expected = match cli_reference(&lib, &lines, f) {
                    Ok(s) => s,
                    Err(e) => {
                        eprintln!("machinery failure: reference failed: {}", e);
                        return 2;
                    }
                };
                match Command::new(&cli).arg("-r").arg(&path).arg("-p").arg(&resp).args(&f.args).arg(&input_path).output() {
                    Err(e) => {
                        eprintln!("machinery failure: cannot run {}: {}", cli.display(), e);
                        return 2;
                    }
                    Ok(o) => {
                        let got = String::from_utf8_lossy(&o.stdout).to_string();
                        let st = json!({"file": lines, "flags": f.name, "userDict": users});
                        if !o.status.success() {
                            q_fail.push((st, Failure::new("cli-crashed", format!("sudachi {} with userDict {:?} exited with {:?}: {}", f.name, users, o.status.code(), String::from_utf8_lossy(&o.stderr).chars().take(200).collect::<String>()))));
                        } else if got != expected {
                            let (gl, el): (Vec<&str>, Vec<&str>) = (got.lines().collect(), expected.lines().collect());
                            let k = gl.iter().zip(el.iter()).position(|(a, b)| a != b).unwrap_or(gl.len().min(el.len()));
                            q_fail.push((st, Failure::new("cli-output-differs", format!("sudachi {} with userDict {:?} ({}): output line {} is {:?}, the library (same configuration file) gives {:?}", f.name, users, label, k, gl.get(k), el.get(k)))));
                        }
                    }
                }
            }
        }
        let first: Vec<(Value, Failure)> = q_fail.into_iter().take(1).collect();
        rep.add_direct("cli/user-dictionary-listed-several-times", q_cases.max(1), q_cases.max(1), q_cases.max(1), vec![], first, json!({"userDict_lists": 3, "flag_sets": ["default", "-a", "-m B -a"]}));
    }
    // ---------------- Python
    let pyroot = match assemble_python(&so) {
        Ok(p) => p,
        Err(e) => {
            eprintln!("machinery failure: {}", e);
            return 2;
        }
    };
    let texts = ["東京都に行く", "1,000円ab㍿", "𠮷野東京府", ""];
    let queries = ["東京", "すだち"];
    // texts analysed once per tokenizer configuration (not part of the sequence alphabet): inputs
    // whose code-point and byte offsets differ in every way normalisation can make them differ
    let extra = ["ＡＢＣ　１２３", "Ｓｕｄａｃｈｉ", "…", "㍿㍿", "e\u{301}京都", "👩\u{200d}💻rust", "ｶﾞｷﾞ東京", "１２３", "ＡＢ京都", "\u{fdfa}", "𠮷𠮷𠮷a", "東京都（とうきょうと）に", "あーーー", "A B\tC"];
    let mut all_texts: Vec<&str> = texts.to_vec();
    all_texts.extend(extra.iter());
    let oracle = match python_oracle(&dict, &all_texts, &queries) {
        Ok(o) => o,
        Err(e) => {
            eprintln!("machinery failure: oracle: {}", e);
            return 2;
        }
    };
    let oracle_path = work_dir().join("oracle.json");
    std::fs::write(&oracle_path, serde_json::to_string(&oracle).unwrap()).expect("write oracle");
    let driver = verif_root().join("harness").join("py").join("driver.py");
    let depth = tier.pick(2, 3);
    let out = Command::new("python3").arg(&driver).arg(&pyroot).arg(&cfg_path).arg(&res_dir).arg(&oracle_path).arg(depth.to_string()).arg("4").output();
    let mut py_fail: Vec<(Value, Failure)> = Vec::new();
    let mut seqs = 0u64;
    let mut calls = 0u64;
    let mut py_samples = Vec::new();
    match out {
        Err(e) => {
            eprintln!("machinery failure: cannot run python3: {}", e);
            return 2;
        }
        Ok(o) => {
            let stdout = String::from_utf8_lossy(&o.stdout).to_string();
            let stderr = String::from_utf8_lossy(&o.stderr).to_string();
            let done = stdout.lines().find(|l| l.starts_with("DONE "));
            for l in stdout.lines() {
                if let Some(rest) = l.strip_prefix("FAIL ") {
                    let (seq, what) = rest.split_once(" :: ").unwrap_or((rest, ""));
                    py_fail.push((json!({"sequence": seq}), Failure::new("python-result-differs", format!("sequence {}: {}", seq, what))));
                }
                if l.starts_with("THREADS ") {
                    py_samples.push(json!(l));
                }
            }
            match done {
                Some(d) => {
                    for part in d.split_whitespace() {
                        if let Some(v) = part.strip_prefix("sequences=") {
                            seqs = v.parse().unwrap_or(0);
                        }
                        if let Some(v) = part.strip_prefix("calls=") {
                            calls = v.parse().unwrap_or(0);
                        }
                    }
                }
                None => {
                    // no DONE line: the interpreter died (signal, abort) or the driver itself broke
                    let tail: Vec<&str> = stderr.lines().rev().take(6).collect();
                    let msg = format!("the Python interpreter ended without finishing the enumeration (status {:?}); stderr tail: {}", o.status.code(), tail.into_iter().rev().collect::<Vec<_>>().join(" | "));
                    if stderr.contains("ModuleNotFoundError") || stderr.contains("ImportError") {
                        eprintln!("machinery failure: {}", msg);
                        return 2;
                    }
                    py_fail.push((json!({"sequence": "?"}), Failure::new("python-interpreter-crashed", msg)));
                }
            }
        }
    }
    py_samples.push(json!({"texts": texts, "queries": queries, "depth": depth}));
    let first: Vec<(Value, Failure)> = py_fail.into_iter().take(1).collect();
    rep.add_direct("python/call-sequences", seqs.max(1), seqs.saturating_sub(5 * 29), calls.min(seqs).max(2), py_samples, first, json!({"depth": depth, "operations": 29, "tokenizer_configurations": 5, "api_calls_checked": calls}));
    rep.finish()
}

fn hash_str(s: &str) -> u64 {
    use std::hash::{Hash, Hasher};
    let mut h = std::collections::hash_map::DefaultHasher::new();
    s.hash(&mut h);
    h.finish()
}
