//! C08 – offset map (monotone, anchored, boundary preserving, identity on unreplaced characters)
//! and code-point offsets, over *histories of edit batches* applied to the real `InputBuffer`.
//!
//! State = real InputBuffer reached by replaying a history of batches; canonical form used for
//! de-duplication = (original, current text, offset map at every character boundary, reference
//! bookkeeping), which determines all futures because `resolve_edits` reads nothing else.
//! The morpheme-level half of C08 (begin_c/end_c) is evaluated on the C01 text trees.

use crate::checks::c01;
use crate::checks::inv::codepoint_failures;
use crate::common::evidence::{Report, Tier};
use crate::common::explore::*;
use crate::common::findings::Failure;
use crate::common::panics::catch;
use crate::common::refmodel::*;
use crate::common::worlds::*;
use serde_json::{json, Value};
use std::hash::{Hash, Hasher};
use std::sync::Arc;
use sudachi::input_text::{InputBuffer, InputTextIndex};

#[derive(Clone, Debug, PartialEq, Eq, Hash)]
pub struct Edit {
    /// character range of the current text
    pub from: usize,
    pub to: usize,
    pub with: String,
}

/// reference bookkeeping per character of the current text
#[derive(Clone, Debug, PartialEq, Eq, Hash)]
pub enum RefChar {
    /// unreplaced character with its own byte range in the original
    Orig(usize, usize),
    /// produced by a replacement
    Repl,
}

#[derive(Clone)]
pub struct BufState {
    pub original: String,
    pub history: Vec<Vec<Edit>>,
    pub buf: InputBuffer,
    pub chars: Vec<RefChar>,
    /// per boundary of the current text: some text was deleted exactly here
    pub deleted_at: Vec<bool>,
}

impl BufState {
    fn key(&self) -> (String, String, Vec<usize>, &Vec<RefChar>, &Vec<bool>, usize) {
        let cur = self.buf.current().to_string();
        let mut map = Vec::new();
        for (b, _) in cur.char_indices() {
            map.push(self.buf.get_original_index(b));
        }
        map.push(self.buf.get_original_index(cur.len()));
        (self.original.clone(), cur, map, &self.chars, &self.deleted_at, self.history.len())
    }
}

impl std::fmt::Debug for BufState {
    fn fmt(&self, f: &mut std::fmt::Formatter<'_>) -> std::fmt::Result {
        write!(f, "BufState({:?}, {:?})", self.original, self.history)
    }
}
impl PartialEq for BufState {
    fn eq(&self, o: &Self) -> bool {
        self.key() == o.key()
    }
}
impl Eq for BufState {}
impl Hash for BufState {
    fn hash<H: Hasher>(&self, h: &mut H) {
        self.key().hash(h)
    }
}

pub struct EditSpace {
    pub world: Arc<World>,
    pub init_syms: Vec<&'static str>,
    pub init_len: usize,
    pub repl_single: Vec<&'static str>,
    pub repl_pair: Vec<&'static str>,
    pub depth: usize,
    pub max_chars: usize,
}

/// a `&'static str` for a replacement text (the menu is finite, so is the leak)
fn intern(s: &str) -> &'static str {
    use std::collections::HashMap;
    use std::sync::{Mutex, OnceLock};
    static POOL: OnceLock<Mutex<HashMap<String, &'static str>>> = OnceLock::new();
    let mut g = POOL.get_or_init(|| Mutex::new(HashMap::new())).lock().unwrap();
    if let Some(v) = g.get(s) {
        return v;
    }
    let leaked: &'static str = Box::leak(s.to_string().into_boxed_str());
    g.insert(s.to_string(), leaked);
    leaked
}

fn fresh(original: &str) -> BufState {
    let mut buf = InputBuffer::new();
    buf.reset().push_str(original);
    buf.start_build().expect("start_build");
    let mut chars = Vec::new();
    for (b, c) in original.char_indices() {
        chars.push(RefChar::Orig(b, b + c.len_utf8()));
    }
    let n = chars.len();
    BufState { original: original.to_string(), history: vec![], buf, chars, deleted_at: vec![false; n + 1] }
}

/// record one batch of replacements in a buffer and commit it
fn apply_to_buf(buf: &mut InputBuffer, batch: &[Edit], depth: usize) -> bool {
    let cur = buf.current().to_string();
    let offs: Vec<usize> = cur.char_indices().map(|(b, _)| b).chain(std::iter::once(cur.len())).collect();
    let edits: Vec<(std::ops::Range<usize>, String)> =
        batch.iter().map(|e| (offs[e.from]..offs[e.to], e.with.clone())).collect();
    // the three ways of recording a replacement (owned string, borrowed string, single character)
    // must be equivalent: which one is used varies with position, batch number and replacement
    let r = buf.with_editor(move |_, mut ed| {
        for (r, w) in edits {
            let special = (r.start + depth + w.chars().count()) % 2 == 0;
            let mut cs = w.chars();
            match (special, cs.next(), cs.next()) {
                (true, Some(c), None) => ed.replace_char(r, c),
                (true, Some(c), Some(_)) if (r.end + depth) % 2 == 0 => {
                    let mut rest = w.chars();
                    rest.next();
                    ed.replace_char_iter(r, c, rest)
                }
                (true, _, _) => ed.replace_ref(r, intern(&w)),
                _ => ed.replace_own(r, w),
            }
        }
        Ok(ed)
    });
    r.is_ok()
}

/// the state's history replayed on a buffer that served another text before (two batches that shrink and expand it,
/// then `build()`), as the buffers inside a tokenizer do: current text and offset map at every character boundary
fn replay_on_used_buffer(s: &BufState, grammar: &sudachi::dic::grammar::Grammar) -> Option<InputBuffer> {
    let mut buf = InputBuffer::new();
    buf.reset().push_str("Ａ㍿x東京ーー");
    buf.start_build().ok()?;
    let _ = apply_to_buf(&mut buf, &[Edit { from: 0, to: 1, with: "a".into() }, Edit { from: 1, to: 2, with: "株式会社".into() }], 0);
    let _ = apply_to_buf(&mut buf, &[Edit { from: 7, to: 9, with: "ー".into() }], 1);
    let _ = buf.build(grammar);
    buf.reset().push_str(&s.original);
    buf.start_build().ok()?;
    for (d, b) in s.history.iter().enumerate() {
        if !apply_to_buf(&mut buf, b, d) {
            return None;
        }
    }
    Some(buf)
}

/// apply one batch to the real buffer and to the reference bookkeeping
fn apply(s: &BufState, batch: &[Edit]) -> Option<BufState> {
    let mut n = s.clone();
    let depth = s.history.len();
    if !apply_to_buf(&mut n.buf, batch, depth) {
        return None;
    }
    // reference
    let mut chars = Vec::new();
    let mut del = Vec::new();
    let mut pos = 0usize; // char index in old text
    let mut pending = s.deleted_at[0];
    for e in batch {
        while pos < e.from {
            del.push(pending);
            chars.push(s.chars[pos].clone());
            pos += 1;
            pending = s.deleted_at[pos];
        }
        // `pending` holds the flag of the boundary at e.from
        let k = e.with.chars().count();
        if k == 0 {
            // deletion: the old boundaries e.from..=e.to collapse into one, flagged
            pending = true;
        } else {
            del.push(pending);
            for i in 0..k {
                chars.push(RefChar::Repl);
                if i + 1 < k {
                    del.push(false);
                }
            }
            pending = s.deleted_at[e.to];
        }
        pos = e.to;
    }
    while pos < s.chars.len() {
        del.push(pending);
        chars.push(s.chars[pos].clone());
        pos += 1;
        pending = s.deleted_at[pos];
    }
    del.push(pending);
    debug_assert_eq!(del.len(), chars.len() + 1);
    n.chars = chars;
    n.deleted_at = del;
    n.history.push(batch.to_vec());
    Some(n)
}

impl EditSpace {
    fn batches(&self, nchars: usize) -> Vec<Vec<Edit>> {
        let mut ranges = Vec::new();
        for a in 0..nchars {
            for b in a + 1..=nchars {
                ranges.push((a, b));
            }
        }
        let mut out = Vec::new();
        for &(a, b) in &ranges {
            for w in &self.repl_single {
                out.push(vec![Edit { from: a, to: b, with: w.to_string() }]);
            }
        }
        for &(a, b) in &ranges {
            for &(c, d) in &ranges {
                if c < b {
                    continue;
                }
                for w1 in &self.repl_pair {
                    for w2 in &self.repl_pair {
                        out.push(vec![
                            Edit { from: a, to: b, with: w1.to_string() },
                            Edit { from: c, to: d, with: w2.to_string() },
                        ]);
                    }
                }
            }
        }
        out
    }
}

impl Space for EditSpace {
    type State = BufState;
    fn name(&self) -> String {
        "InputBuffer/edit-histories".to_string()
    }
    fn init(&self) -> Vec<BufState> {
        let mut v = Vec::new();
        let mut cur: Vec<String> = vec![String::new()];
        for _ in 0..self.init_len {
            let mut nxt = Vec::new();
            for c in &cur {
                for s in &self.init_syms {
                    let t = format!("{}{}", c, s);
                    v.push(fresh(&t));
                    nxt.push(t);
                }
            }
            cur = nxt;
        }
        v
    }
    fn next(&self, s: &BufState, out: &mut Vec<BufState>) {
        if s.history.len() >= self.depth {
            return;
        }
        let n = s.chars.len();
        if n > self.max_chars {
            // a long text: not every range, but one edit at each end and both together
            if n > 1000 && s.history.len() < 2 {
                let first = Edit { from: 0, to: 1, with: "あ".into() };
                let last = Edit { from: n - 1, to: n, with: "".into() };
                for b in [vec![first.clone()], vec![last.clone()], vec![first, last]] {
                    if let Some(nx) = apply(s, &b) {
                        out.push(nx);
                    }
                }
            }
            return;
        }
        for b in self.batches(n) {
            // batches that empty the text are outside the property
            let removed: usize = b.iter().map(|e| e.to - e.from).sum();
            let added: usize = b.iter().map(|e| e.with.chars().count()).sum();
            if n - removed + added == 0 {
                continue;
            }
            if let Some(nx) = apply(s, &b) {
                out.push(nx);
            }
        }
    }
    fn check(&self, s: &BufState) -> Outcome {
        let mut o = self.judge(s, "");
        // the same history on a buffer that served another text before: the same statement applies
        if s.original.len() <= 64 {
            match catch(|| replay_on_used_buffer(s, self.world.dict.grammar())) {
                Err(p) => o.fail(Failure::panic(&format!("original {:?} history {:?} replayed on a used buffer", s.original, s.history), &p)),
                Ok(None) => o.fail(Failure::new("used-buffer-rejects", format!("original {:?} history {:?}: a buffer that was reset after another text rejects the edits a new buffer accepts", s.original, s.history))),
                Ok(Some(buf)) => {
                    let s2 = BufState { original: s.original.clone(), history: s.history.clone(), buf, chars: s.chars.clone(), deleted_at: s.deleted_at.clone() };
                    let o2 = self.judge(&s2, " [on a buffer that was reset after holding another, rewritten text]");
                    o.evaluations += o2.evaluations;
                    o.failures.extend(o2.failures);
                }
            }
        }
        o
    }
    fn describe(&self, s: &BufState) -> Value {
        json!({
            "original": s.original,
            "history": s.history.iter().map(|b| b.iter().map(|e| json!({"from": e.from, "to": e.to, "with": e.with})).collect::<Vec<_>>()).collect::<Vec<_>>(),
            "current": s.buf.current(),
        })
    }
    fn parse(&self, v: &Value) -> Option<BufState> {
        let mut s = fresh(v["original"].as_str()?);
        for b in v["history"].as_array()? {
            let batch: Vec<Edit> = b
                .as_array()?
                .iter()
                .map(|e| Edit {
                    from: e["from"].as_u64().unwrap_or(0) as usize,
                    to: e["to"].as_u64().unwrap_or(0) as usize,
                    with: e["with"].as_str().unwrap_or("").to_string(),
                })
                .collect();
            s = apply(&s, &batch)?;
        }
        Some(s)
    }
}

impl EditSpace {
    fn judge(&self, s: &BufState, note: &str) -> Outcome {
        let mut o = Outcome::new();
        o.evaluations = 1;
        o.nontrivial = !s.history.is_empty();
        let cur = s.buf.current().to_string();
        let orig = &s.original;
        let ctx = format!("original {:?} history {:?} current {:?}{}", orig, s.history, cur, note);
        if s.buf.original() != orig.as_str() {
            o.fail(Failure::new("original-changed", format!("{}: original() = {:?}", ctx, s.buf.original())));
        }
        // reference text
        let offs: Vec<usize> = cur.char_indices().map(|(b, _)| b).chain(std::iter::once(cur.len())).collect();
        if offs.len() != s.chars.len() + 1 {
            o.fail(Failure::new("text-mismatch", format!("{}: reference has {} chars", ctx, s.chars.len())));
            return o;
        }
        let m: Vec<usize> = offs.iter().map(|&b| s.buf.get_original_index(b)).collect();
        o.observe(&m);
        if m[0] != 0 {
            o.fail(Failure::new("start-not-anchored", format!("{}: start maps to {}", ctx, m[0])));
        }
        if *m.last().unwrap() != orig.len() {
            o.fail(Failure::new("end-not-anchored", format!("{}: end maps to {} (len {})", ctx, m.last().unwrap(), orig.len())));
        }
        for i in 1..m.len() {
            if m[i] < m[i - 1] {
                o.fail(Failure::new("not-monotone", format!("{}: map {:?}", ctx, m)));
                break;
            }
        }
        for (i, &v) in m.iter().enumerate() {
            if v > orig.len() || !orig.is_char_boundary(v) {
                o.fail(Failure::new("not-char-boundary", format!("{}: boundary {} maps to {} map {:?}", ctx, i, v, m)));
            }
        }
        // to_orig on every character-boundary range agrees with the point map
        for i in 0..offs.len() {
            for j in i..offs.len() {
                // (long texts: ranges of up to two characters and ranges reaching the end)
                if offs.len() > 64 && j > i + 2 && j + 2 < offs.len() {
                    continue;
                }
                let r = s.buf.to_orig(offs[i]..offs[j]);
                if r.start != m[i] || r.end != m[j] {
                    o.fail(Failure::new("to-orig-range", format!("{}: to_orig({}..{}) = {:?} but points map to {}..{}", ctx, offs[i], offs[j], r, m[i], m[j])));
                }
            }
        }
        // unreplaced characters map to themselves
        for (i, rc) in s.chars.iter().enumerate() {
            if let RefChar::Orig(os, oe) = rc {
                let (a, b) = (m[i], m[i + 1]);
                let ch = &cur[offs[i]..offs[i + 1]];
                if orig.get(*os..*oe) != Some(ch) {
                    o.fail(Failure::new("text-mismatch", format!("{}: char {} is {:?} but reference says original[{}..{}]", ctx, i, ch, os, oe)));
                    continue;
                }
                if a > *os || b < *oe {
                    o.fail(Failure::new("unreplaced-char-not-covered", format!("{}: unreplaced char {} {:?} (original {}..{}) is mapped to {}..{}", ctx, i, ch, os, oe, a, b)));
                } else if !s.deleted_at[i] && !s.deleted_at[i + 1] && (a != *os || b != *oe) {
                    o.fail(Failure::new("unreplaced-char-not-exact", format!("{}: unreplaced char {} {:?} (original {}..{}) with no deleted text adjacent is mapped to {}..{}", ctx, i, ch, os, oe, a, b)));
                }
            }
        }
        // after build(): char <-> byte tables and code-point offsets
        let r = catch(|| {
            let mut b = s.buf.clone();
            b.build(self.world.dict.grammar()).map(|_| b)
        });
        match r {
            Err(p) => o.fail(Failure::panic(&format!("build {}", ctx), &p)),
            Ok(Err(e)) => o.fail(Failure::new("build-error", format!("{}: {}", ctx, e))),
            Ok(Ok(b)) => {
                let n = s.chars.len();
                let cbo = b.curr_byte_offsets();
                if cbo != &offs[..n] {
                    o.fail(Failure::new("char-to-byte", format!("{}: curr_byte_offsets {:?} expected {:?}", ctx, cbo, &offs[..n])));
                }
                if b.current_chars().iter().collect::<String>() != cur {
                    o.fail(Failure::new("chars", format!("{}: current_chars {:?}", ctx, b.current_chars())));
                }
                for i in 0..=n {
                    let ob = b.to_orig_byte_idx(i);
                    if ob != m[i] {
                        o.fail(Failure::new("to-orig-byte-idx", format!("{}: to_orig_byte_idx({})={} expected {}", ctx, i, ob, m[i])));
                        continue;
                    }
                    if ob <= orig.len() && orig.is_char_boundary(ob) {
                        let oc = b.to_orig_char_idx(i);
                        let exp = orig[..ob].chars().count();
                        if oc != exp {
                            o.fail(Failure::new("to-orig-char-idx", format!("{}: to_orig_char_idx({})={} expected {}", ctx, i, oc, exp)));
                        }
                    }
                    if b.to_curr_byte_idx(i) != offs[i] {
                        o.fail(Failure::new("to-curr-byte-idx", format!("{}: to_curr_byte_idx({})={} expected {}", ctx, i, b.to_curr_byte_idx(i), offs[i])));
                    }
                }
                for byte in 0..=cur.len() {
                    // ch_idx: index of the character containing the byte; sentinel = number of chars
                    let exp = offs.iter().rposition(|&o2| o2 <= byte).unwrap().min(n);
                    let exp = if byte == cur.len() { n } else { exp };
                    if b.ch_idx(byte) != exp {
                        o.fail(Failure::new("byte-to-char", format!("{}: ch_idx({})={} expected {}", ctx, byte, b.ch_idx(byte), exp)));
                    }
                }
                for i in 0..n {
                    for j in i..=n {
                        if n > 64 && j > i + 2 && j + 1 < n {
                            continue;
                        }
                        if b.curr_slice_c(i..j) != &cur[offs[i]..offs[j]] {
                            o.fail(Failure::new("curr-slice-c", format!("{}: curr_slice_c({}..{})", ctx, i, j)));
                        }
                        if m[i] <= m[j] && m[j] <= orig.len() && orig.is_char_boundary(m[i]) && orig.is_char_boundary(m[j]) {
                            if b.orig_slice_c(i..j) != &orig[m[i]..m[j]] {
                                o.fail(Failure::new("orig-slice-c", format!("{}: orig_slice_c({}..{})", ctx, i, j)));
                            }
                        }
                    }
                }
            }
        }
        o
    }
}

/// morpheme-level half: code-point offsets on the text trees of C01
pub fn c08_text_oracle(t: &c01::TextTree, text: &str) -> Outcome {
    let mut o = Outcome::new();
    let dict = &t.world.dict;
    for mode in MODES {
        o.evaluations += 1;
        match catch(|| analyze(dict, mode, text)) {
            Err(p) => o.fail(Failure::panic(&format!("analyse {:?}", text), &p)),
            Ok(Err(_)) => o.count("rejected", 1),
            Ok(Ok(toks)) => {
                let ctx = format!("{} mode {}", t.world.name(), mode_name(mode));
                for f in codepoint_failures(text, &toks, &ctx) {
                    o.fail(f);
                }
                if toks.iter().any(|t| t.begin != t.begin_c) {
                    o.nontrivial = true;
                }
                o.observe(&toks.iter().map(|t| (t.begin_c, t.end_c)).collect::<Vec<_>>());
            }
        }
    }
    o
}

/// 4094 bytes of ASCII as one "symbol" of the second edit space
const LONG_ORIGINAL: &str = include_str!("c08_long_symbol.txt");

pub fn main(tier: Tier, replay: Option<String>) -> i32 {
    let mut rep = Report::new("C08", "model_checking", tier);
    rep.rule = "edit space: states = InputBuffers reached from every original string (1..init_len symbols over a/é/あ/𠮷) by every history of at most `depth` batches (every single replacement of every character range by every menu string, and every ordered non-overlapping pair); de-duplicated by (original, text, offset map, reference bookkeeping, depth); non-trivial = at least one batch applied. text trees: every string within the bound, tokenized in A/B/C; non-trivial = some byte offset differs from its code-point offset".into();
    rep.assumptions = vec![
        "edits lie on character boundaries, are ordered and non-overlapping, and are non-empty ranges (what the bundled plugins produce)".into(),
        "batches that empty the text are outside the property".into(),
    ];
    let world = Arc::new(World::build(spec_min("W-min")).expect("world"));
    let mut jobs: Vec<Box<dyn AnyJob>> = Vec::new();
    let es = match tier {
        Tier::Quick => EditSpace {
            world: world.clone(),
            init_syms: vec!["a", "é", "あ", "𠮷"],
            init_len: 3,
            repl_single: vec!["", "x", "あ", "xy", "𠮷", "é𠮷a"],
            repl_pair: vec!["", "x", "あい"],
            depth: 2,
            max_chars: 5,
        },
        Tier::Thorough => EditSpace {
            world: world.clone(),
            init_syms: vec!["a", "é", "あ", "𠮷"],
            init_len: 4,
            repl_single: vec!["", "x", "あ", "xy", "𠮷", "é𠮷a"],
            repl_pair: vec!["", "x", "あい", "𠮷"],
            depth: 3,
            max_chars: 6,
        },
    };
    let bound = json!({"init_len": es.init_len, "depth": es.depth, "single_menu": es.repl_single, "pair_menu": es.repl_pair, "max_chars_before_batch": es.max_chars});
    // breadth-first in the quick tier (shortest counterexample first); depth-first in the thorough tier,
    // whose frontier of real buffers would not fit into memory breadth-first
    jobs.push(job(es, tier.pick(Strategy::Bfs, Strategy::Dfs), Some(tier.pick(45, 1800)), bound));
    // the same space over another set of original characters: the first three-byte scalar value
    // (U+0800, lead byte 0xE0), the last two-byte one (U+07FF) and an astral one
    {
        let es2 = EditSpace {
            world: world.clone(),
            // (also a scalar value of the last plane, lead byte 0xF4, and an original of 4094 bytes, so
            // that originals of 4095 .. 4098 and more bytes occur: such long texts are checked as they
            // are and after edits of their neighbours, their own characters are not enumerated)
            init_syms: vec!["\u{800}", "\u{7ff}", "𠮷", "a", "\u{10ffff}", LONG_ORIGINAL],
            init_len: tier.pick(2, 3),
            repl_single: vec!["", "x", "\u{800}", "x\u{fff}"],
            repl_pair: vec!["", "x", "\u{800}\u{7ff}"],
            depth: 2,
            max_chars: 5,
        };
        let bound2 = json!({"init_len": es2.init_len, "depth": es2.depth, "originals_over": es2.init_syms, "single_menu": es2.repl_single, "pair_menu": es2.repl_pair});
        jobs.push(job(es2, Strategy::Dfs, Some(tier.pick(45, 900)), bound2));
    }
    // morpheme-level statement on the C01 trees (primary world only in quick)
    for (i, j) in c01::jobs(tier, c08_text_oracle).into_iter().enumerate() {
        if tier == Tier::Quick && i > 1 {
            break;
        }
        jobs.push(j);
    }
    drive(rep, jobs, replay)
}
