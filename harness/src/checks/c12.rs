//! C12 – layered user dictionaries keep ids, parts of speech and references straight.
//!
//! State = configuration decisions: number of user dictionaries, the POS pattern of each, which
//! POS the OOV plugins register, and how the user dictionaries were built (against the bare
//! system dictionary, or against the loaded dictionary with its plugins as `sudachi ubuild` does).

use crate::common::evidence::{Report, Tier};
use crate::common::explore::*;
use crate::common::findings::Failure;
use crate::common::panics::catch;
use crate::common::refmodel::*;
use crate::common::worlds::*;
use serde_json::{json, Value};
use std::path::PathBuf;
use std::sync::Arc;
use sudachi::analysis::stateless_tokenizer::DictionaryAccess;
use sudachi::analysis::Mode;
use sudachi::dic::word_id::WordId;

#[derive(Clone, Copy, Debug, PartialEq, Eq, Hash)]
pub enum PosPattern {
    SystemOnly,
    /// a POS that only this dictionary defines
    Own,
    /// a POS shared with every other dictionary that uses this pattern
    Shared,
    /// the POS an OOV plugin registers (userPOS: allow)
    SameAsPlugin,
}

#[derive(Clone, Debug, PartialEq, Eq, Hash)]
pub struct Layers {
    /// 0 = no plugin registers a POS, 1 = the simple provider registers one, 2 = regex + simple register two
    pub plugin_pos: u8,
    /// user dictionaries are built against the loaded dictionary (with plugins and the earlier user dictionaries)
    pub against_loaded: bool,
    pub dicts: Vec<PosPattern>,
}

const P_PLUGIN1: [&str; 6] = ["プラグイン", "品詞", "一", "*", "*", "*"];
const P_PLUGIN2: [&str; 6] = ["プラグイン", "品詞", "二", "*", "*", "*"];
const P_SHARED: [&str; 6] = ["共有", "品詞", "*", "*", "*", "*"];
const KANA: &str = "かきくけこさしすせそたちつてとなにぬ";

fn own_pos(d: usize) -> [String; 6] {
    [format!("固有{}", d), "品詞".into(), "*".into(), "*".into(), "*".into(), "*".into()]
}

fn pattern_pos(p: PosPattern, d: usize) -> [String; 6] {
    match p {
        PosPattern::SystemOnly => pos_of(P_PROPN),
        PosPattern::Own => own_pos(d),
        PosPattern::Shared => pos_of(P_SHARED),
        PosPattern::SameAsPlugin => pos_of(P_PLUGIN1),
    }
}

fn ch(d: usize) -> char {
    KANA.chars().nth(d - 1).unwrap()
}

/// rows of user dictionary number d (1-based)
fn user_rows(d: usize, p: PosPattern) -> Vec<Row> {
    let c = ch(d);
    let a = format!("{}あ", c);
    let b = format!("{}い", c);
    let pos = pattern_pos(p, d);
    let with_pos = |mut r: Row| -> Row {
        r.pos = pos.clone();
        r
    };
    vec![
        with_pos(Row::new(&a, 1, 1, 10, P_NOUN).reading(&format!("エー{}", d))),                         // U0
        Row::new(&b, 1, 1, 10, P_NOUN).reading(&format!("ビー{}", d)),                                   // U1: system POS
        with_pos(Row::new(&format!("{}{}", a, b), 1, 1, -500, P_NOUN).splits("C", "U0/U1", "U0/U1").structure("U0/U1")), // U2
        with_pos(Row::new(&format!("{}東", a), 1, 1, -500, P_NOUN).splits("C", &format!("{},{},エー{}/東,名詞,普通名詞,一般,*,*,*,ヒガシ", a, pos.join(","), d), "U0/0")), // U3
        with_pos(Row::new("共", 1, 1, 5000 + d as i32, P_NOUN).reading(&format!("キョウ{}", d))),        // U4: homograph in every dictionary
        with_pos(Row::new(&format!("{}京", a), 1, 1, -500, P_NOUN).splits("C", "*", "U0/1")),               // U5: B units only
        with_pos(Row::new(&format!("{}単", a), 1, 1, -500, P_NOUN).splits("C", "U0", &format!("{},{},エー{}", a, pos.join(","), d)).structure("U0")), // U6: lists of one reference
        // U7: a homograph of the system word 東 (same part of speech) that is read like its key: the inline
        // reference `東,...,ヒガシ` of U3 still means the system word
        Row::new("東", 1, 1, 9000, P_NOUN).reading("東"),
        // U8: written differently from its key, same key / part of speech / reading as the system word 京
        Row::new("京", 1, 1, 9000, P_NOUN).headword("亰").reading("キョウ"),
        // U9: its inline reference to 京 means the word of its own dictionary (own entries come first)
        with_pos(Row::new(&format!("{}京京", a), 1, 1, -500, P_NOUN).splits("C", "U0/京,名詞,普通名詞,一般,*,*,*,キョウ", "*")),
        // U10: a part of speech with empty components - not the same as the system's `名詞,普通名詞,一般,*,*,*`
        {
            let mut r = Row::new(&format!("{}空", a), 1, 1, -500, P_NOUN);
            r.pos = ["名詞".into(), "普通名詞".into(), "一般".into(), "".into(), "".into(), "".into()];
            r
        },
    ]
}

fn system_rows() -> Vec<Row> {
    vec![
        Row::new("東", 1, 1, 4675, P_NOUN).reading("ヒガシ"),
        Row::new("京", 1, 1, 5100, P_NOUN).reading("キョウ"),
        Row::new("東京", 1, 1, 2816, P_PROPN).reading("トウキョウ").splits("B", "0/1", "*"),
        Row::new("共", 1, 1, 5000, P_PART).reading("トモ"),
        Row::new("行く", 1, 1, 5105, P_VERB).reading("イク"),
    ]
}

pub struct Env {
    pub dir: PathBuf,
    pub matrix: String,
    pub system: Vec<u8>,
    pub baseline: Vec<(Vec<String>, Vec<String>)>, // per system word: (pos strings, fields)
}

fn plugins_for(plugin_pos: u8) -> Value {
    match plugin_pos {
        0 => json!({"oovProviderPlugin": [simple_oov(0, 0, 30000, P_NOUN, false)]}),
        1 => json!({"oovProviderPlugin": [simple_oov(0, 0, 30000, P_PLUGIN1, true)]}),
        _ => json!({"oovProviderPlugin": [regex_oov("[a-z]+", 0, 0, 20000, P_PLUGIN2, 8, true), simple_oov(0, 0, 30000, P_PLUGIN1, true)]}),
    }
}

fn word_fields(dict: &Dict, wid: WordId) -> Result<(Vec<String>, Vec<String>), String> {
    let wi = dict.lexicon().get_word_info(wid).map_err(|e| e.to_string())?;
    let pos = dict.grammar().pos_list.get(wi.pos_id() as usize).cloned().ok_or_else(|| format!("pos id {} out of range ({} known)", wi.pos_id(), dict.grammar().pos_list.len()))?;
    let fields = vec![
        wi.surface().to_string(),
        wi.reading_form().to_string(),
        wi.normalized_form().to_string(),
        wi.dictionary_form().to_string(),
        format!("{:?}", wi.a_unit_split()),
        format!("{:?}", wi.b_unit_split()),
        format!("{:?}", wi.word_structure()),
        format!("{:?}", wi.synonym_group_ids()),
        format!("{:?}", dict.lexicon().get_word_param(wid)),
    ];
    Ok((pos, fields))
}

/// `from_files`: through configuration + files (memory-mapped), as the CLI and the Python binding do
fn build(env: &Env, l: &Layers, from_files: bool) -> Result<Dict, String> {
    let plugins = plugins_for(l.plugin_pos);
    let mut users: Vec<Vec<u8>> = Vec::new();
    for (i, p) in l.dicts.iter().enumerate() {
        let d = i + 1;
        let csv = rows_to_csv(&user_rows(d, *p));
        let base = if l.against_loaded {
            // what `sudachi ubuild -s system.dic` does: the system dictionary loaded with the configured plugins
            load(&env.dir, &plugins, env.system.clone(), vec![])?
        } else {
            load(&env.dir, &bare_plugins(&pos_of(P_NOUN)), env.system.clone(), vec![])?
        };
        users.push(compile_user(&base, &csv)?);
    }
    if from_files {
        let tag = format!("c12_{}", format!("{:?}", std::thread::current().id()).replace(|ch: char| !ch.is_ascii_digit(), ""));
        return Ok(Arc::new(load_from_files(&env.dir, &plugins, &env.system, &users, &tag)?));
    }
    Ok(Arc::new(load(&env.dir, &plugins, env.system.clone(), users)?))
}

fn check_layers(env: &Env, l: &Layers, o: &mut Outcome) {
    // the same stack handed over as in-memory storage and as files named in the configuration
    check_layers_route(env, l, o, false);
    if o.failures.is_empty() {
        check_layers_route(env, l, o, true);
    }
}

fn check_layers_route(env: &Env, l: &Layers, o: &mut Outcome, from_files: bool) {
    o.evaluations += 1;
    let ctx = format!("plugins register {} POS, user dictionaries built against {}, POS patterns {:?}{}", l.plugin_pos, if l.against_loaded { "the loaded dictionary" } else { "the bare system dictionary" }, l.dicts, if from_files { ", loaded from files through the configuration" } else { "" });
    let k = l.dicts.len();
    let r = catch(|| build(env, l, from_files));
    let dict = match r {
        Err(p) => {
            o.fail(Failure::panic(&format!("{}: building/loading", ctx), &p));
            return;
        }
        Ok(Err(e)) => {
            if k <= 14 {
                o.fail(Failure::new("load-error", format!("{}: {}", ctx, e)));
            } else {
                o.count("fifteenth_rejected", 1);
            }
            return;
        }
        Ok(Ok(d)) => d,
    };
    if k > 14 {
        o.fail(Failure::new("too-many-user-dictionaries-accepted", format!("{}: {} user dictionaries were accepted", ctx, k)));
        return;
    }
    o.nontrivial = k > 0;
    let r = catch(|| {
        let mut f: Vec<Failure> = Vec::new();
        // system words are unaffected
        for (i, base) in env.baseline.iter().enumerate() {
            match word_fields(&dict, WordId::new(0, i as u32)) {
                Ok(got) => {
                    if &got != base {
                        f.push(Failure::new("system-word-changed", format!("{}: system word {} reports {:?}, without user dictionaries {:?}", ctx, i, got, base)));
                    }
                }
                Err(e) => f.push(Failure::new("system-word-changed", format!("{}: system word {}: {}", ctx, i, e))),
            }
        }
        for (idx, p) in l.dicts.iter().enumerate() {
            let d = idx + 1;
            let rows = user_rows(d, *p);
            for (i, row) in rows.iter().enumerate() {
                let wid = WordId::new(d as u8, i as u32);
                match word_fields(&dict, wid) {
                    Err(e) => f.push(Failure::new("user-word-unreadable", format!("{}: word ({}, {}) {:?}: {}", ctx, d, i, row.surface, e))),
                    Ok((pos, fields)) => {
                        if pos != row.pos.to_vec() {
                            f.push(Failure::new("part-of-speech-differs", format!("{}: word ({}, {}) {:?} reports part of speech {:?}, its source declares {:?}", ctx, d, i, row.surface, pos, row.pos)));
                        }
                        if fields[0] != row.headword || fields[1] != row.reading {
                            f.push(Failure::new("user-word-fields", format!("{}: word ({}, {}) reports {:?}", ctx, d, i, fields)));
                        }
                        // references
                        let u = |n: u32| WordId::new(d as u8, n);
                        let exp_a: Vec<WordId> = match i {
                            2 => vec![u(0), u(1)],
                            3 => vec![u(0), WordId::new(0, 0)],
                            6 => vec![u(0)],
                            9 => vec![u(0), u(8)],
                            _ => vec![],
                        };
                        let exp_b = if i == 5 { vec![u(0), WordId::new(0, 1)] } else if i == 9 { vec![] } else { exp_a.clone() };
                        let exp_ws: Vec<WordId> = match i {
                            2 | 6 => exp_a.clone(),
                            _ => vec![],
                        };
                        if fields[6] != format!("{:?}", exp_ws) {
                            f.push(Failure::new("split-reference-differs", format!("{}: word ({}, {}) {:?} has word structure {}, declared {:?}", ctx, d, i, row.surface, fields[6], exp_ws)));
                        }
                        if fields[4] != format!("{:?}", exp_a) || fields[5] != format!("{:?}", exp_b) {
                            f.push(Failure::new("split-reference-differs", format!("{}: word ({}, {}) {:?} has A/B units {} / {}, declared {:?}", ctx, d, i, row.surface, fields[4], fields[5], exp_a)));
                        }
                    }
                }
            }
        }
        // analysis: dictionary id, POS and sub-tokens as reported on morphemes
        for (idx, p) in l.dicts.iter().enumerate() {
            let d = idx + 1;
            let rows = user_rows(d, *p);
            for i in [0usize, 2, 3, 5] {
                let text = rows[i].surface.clone();
                // the part of speech is the declared one also when only surface and POS are loaded
                match analyze_list(&dict, Mode::C, Some(sudachi::dic::subset::InfoSubset::SURFACE | sudachi::dic::subset::InfoSubset::POS_ID), &text) {
                    Err(e) => f.push(Failure::new("analysis-error", format!("{}: analysing {:?} with fields surface+POS: {:?}", ctx, text, e))),
                    Ok(l) => {
                        let t = toks_of(&l);
                        if t.len() != 1 || t[0].dic_id != d as i32 || t[0].pos != rows[i].pos.to_vec() {
                            f.push(Failure::new("part-of-speech-differs", format!("{}: {:?} analysed with only surface and POS loaded reports {:?}, expected dictionary {} POS {:?}", ctx, text, t.iter().map(|x| (x.dic_id, x.pos.clone())).collect::<Vec<_>>(), d, rows[i].pos)));
                        }
                    }
                }
                if i == 5 {
                    match analyze(&dict, Mode::B, &text) {
                        Err(e) => f.push(Failure::new("analysis-error", format!("{}: analysing {:?} in mode B: {:?}", ctx, text, e))),
                        Ok(t) => {
                            let exp: Vec<(i32, u32)> = vec![(d as i32, WordId::new(d as u8, 0).as_raw()), (0, 1)];
                            let got: Vec<(i32, u32)> = t.iter().map(|x| (x.dic_id, x.word_id)).collect();
                            if got != exp {
                                f.push(Failure::new("split-units-differ", format!("{}: {:?} in mode B gives (dictionary, word) {:?}, declared {:?}", ctx, text, got, exp)));
                            }
                        }
                    }
                }
                match analyze(&dict, Mode::C, &text) {
                    Err(e) => f.push(Failure::new("analysis-error", format!("{}: analysing {:?}: {:?}", ctx, text, e))),
                    Ok(t) => {
                        if t.len() != 1 || t[0].dic_id != d as i32 || t[0].pos != rows[i].pos.to_vec() || t[0].word_id != WordId::new(d as u8, i as u32).as_raw() {
                            f.push(Failure::new("morpheme-source-differs", format!("{}: {:?} is analysed as {:?}, expected one morpheme of dictionary {} word {} with POS {:?}", ctx, text, t.iter().map(|x| (x.surface.clone(), x.dic_id, x.word_id, x.pos.clone())).collect::<Vec<_>>(), d, i, rows[i].pos)));
                        }
                    }
                }
                // ... and the units are the declared ones also when only surface and POS are loaded
                if i == 2 || i == 3 || i == 5 {
                    let (mode, mname) = if i == 5 { (Mode::B, "B") } else { (Mode::A, "A") };
                    match analyze_list(&dict, mode, Some(sudachi::dic::subset::InfoSubset::SURFACE | sudachi::dic::subset::InfoSubset::POS_ID), &text) {
                        Err(e) => f.push(Failure::new("analysis-error", format!("{}: analysing {:?} in mode {} with fields surface+POS: {:?}", ctx, text, mname, e))),
                        Ok(l) => {
                            let t = toks_of(&l);
                            let own0 = (d as i32, WordId::new(d as u8, 0).as_raw());
                            let exp: Vec<(i32, u32)> = match i {
                                2 => vec![own0, (d as i32, WordId::new(d as u8, 1).as_raw())],
                                3 => vec![own0, (0, 0)],
                                _ => vec![own0, (0, 1)],
                            };
                            let got: Vec<(i32, u32)> = t.iter().map(|x| (x.dic_id, x.word_id)).collect();
                            if got != exp {
                                f.push(Failure::new("split-units-differ", format!("{}: {:?} in mode {} with only surface and POS loaded gives (dictionary, word) {:?}, declared {:?}", ctx, text, mname, got, exp)));
                            }
                            if let Some(first) = t.first() {
                                if first.pos != rows[0].pos.to_vec() {
                                    f.push(Failure::new("part-of-speech-differs", format!("{}: first unit of {:?} (mode {}, only surface and POS loaded) reports POS {:?}, declared {:?}", ctx, text, mname, first.pos, rows[0].pos)));
                                }
                            }
                        }
                    }
                }
                if i == 2 || i == 3 {
                    match analyze(&dict, Mode::A, &text) {
                        Err(e) => f.push(Failure::new("analysis-error", format!("{}: analysing {:?} in mode A: {:?}", ctx, text, e))),
                        Ok(t) => {
                            let exp: Vec<(i32, u32)> = if i == 2 { vec![(d as i32, WordId::new(d as u8, 0).as_raw()), (d as i32, WordId::new(d as u8, 1).as_raw())] } else { vec![(d as i32, WordId::new(d as u8, 0).as_raw()), (0, 0)] };
                            let got: Vec<(i32, u32)> = t.iter().map(|x| (x.dic_id, x.word_id)).collect();
                            if got != exp {
                                f.push(Failure::new("split-units-differ", format!("{}: {:?} in mode A gives (dictionary, word) {:?}, declared {:?}", ctx, text, got, exp)));
                            }
                            // the units report the POS of their own sources
                            if let Some(first) = t.first() {
                                if first.pos != rows[0].pos.to_vec() {
                                    f.push(Failure::new("part-of-speech-differs", format!("{}: first unit of {:?} reports POS {:?}, declared {:?}", ctx, text, first.pos, rows[0].pos)));
                                }
                            }
                        }
                    }
                }
            }
        }
        // the homograph is found once per dictionary, with the right numbers
        {
            let mut got: Vec<(u8, u32)> = dict.lexicon().lookup("共".as_bytes(), 0).map(|e| (e.word_id.dic(), e.word_id.word())).collect();
            got.sort();
            let mut exp: Vec<(u8, u32)> = vec![(0, 3)];
            for d in 1..=k {
                exp.push((d as u8, 4));
            }
            if got != exp {
                f.push(Failure::new("homograph-lookup", format!("{}: lookup of the shared key returns {:?}, expected {:?}", ctx, got, exp)));
            }
        }
        // out-of-vocabulary morphemes
        match analyze(&dict, Mode::C, "ゞ") {
            Ok(t) => {
                let exp_pos: Vec<String> = if l.plugin_pos == 0 { pos_of(P_NOUN).to_vec() } else { pos_of(P_PLUGIN1).to_vec() };
                if t.len() != 1 || t[0].dic_id != -1 || !t[0].is_oov || t[0].pos != exp_pos {
                    f.push(Failure::new("oov-morpheme", format!("{}: OOV text is analysed as {:?}, expected dictionary -1 and POS {:?}", ctx, t.iter().map(|x| (x.dic_id, x.is_oov, x.pos.clone())).collect::<Vec<_>>(), exp_pos)));
                }
            }
            Err(e) => f.push(Failure::new("analysis-error", format!("{}: analysing OOV text: {:?}", ctx, e))),
        }
        if l.plugin_pos == 2 {
            match analyze(&dict, Mode::C, "abc") {
                Ok(t) => {
                    if t.len() != 1 || t[0].pos != pos_of(P_PLUGIN2).to_vec() || t[0].dic_id != -1 {
                        f.push(Failure::new("oov-morpheme", format!("{}: regex OOV text is analysed as {:?}", ctx, t.iter().map(|x| (x.dic_id, x.pos.clone())).collect::<Vec<_>>())));
                    }
                }
                Err(e) => f.push(Failure::new("analysis-error", format!("{}: analysing regex OOV text: {:?}", ctx, e))),
            }
        }
        f
    });
    match r {
        Ok(f) => o.failures.extend(f),
        Err(p) => o.fail(Failure::panic(&format!("{}: reading / analysing", ctx), &p)),
    }
    o.observe(l);
}

pub struct LayerSpace {
    pub env: Arc<Env>,
    pub max_k: usize,
    pub routes: Vec<bool>,
}

impl Space for LayerSpace {
    type State = Layers;
    fn name(&self) -> String {
        "layers/configurations".into()
    }
    fn init(&self) -> Vec<Layers> {
        let mut v = Vec::new();
        for plugin_pos in 0..=2u8 {
            for &r in &self.routes {
                v.push(Layers { plugin_pos, against_loaded: r, dicts: vec![] });
            }
        }
        v
    }
    fn next(&self, s: &Layers, out: &mut Vec<Layers>) {
        if s.dicts.len() >= self.max_k {
            return;
        }
        for p in [PosPattern::SystemOnly, PosPattern::Own, PosPattern::Shared, PosPattern::SameAsPlugin] {
            if p == PosPattern::SameAsPlugin && s.plugin_pos == 0 {
                continue;
            }
            let mut n = s.clone();
            n.dicts.push(p);
            out.push(n);
        }
    }
    fn check(&self, s: &Layers) -> Outcome {
        let mut o = Outcome::new();
        check_layers(&self.env, s, &mut o);
        o
    }
    fn describe(&self, s: &Layers) -> Value {
        json!({"plugin_pos": s.plugin_pos, "against_loaded": s.against_loaded, "dicts": s.dicts.iter().map(|p| format!("{:?}", p)).collect::<Vec<_>>()})
    }
    fn parse(&self, v: &Value) -> Option<Layers> {
        let dicts = v["dicts"]
            .as_array()?
            .iter()
            .filter_map(|x| match x.as_str()? {
                "SystemOnly" => Some(PosPattern::SystemOnly),
                "Own" => Some(PosPattern::Own),
                "Shared" => Some(PosPattern::Shared),
                "SameAsPlugin" => Some(PosPattern::SameAsPlugin),
                _ => None,
            })
            .collect();
        Some(Layers { plugin_pos: v["plugin_pos"].as_u64()? as u8, against_loaded: v["against_loaded"].as_bool()?, dicts })
    }
}

pub fn main(tier: Tier, replay: Option<String>) -> i32 {
    let mut rep = Report::new("C12", "model_checking", tier);
    rep.rule = "states = configurations built decision by decision: OOV plugins registering 0/1/2 new POS, user dictionaries built against the bare system dictionary or against the loaded dictionary with plugins, then one POS pattern per user dictionary (system POS only / own new POS / POS shared between dictionaries / POS equal to a plugin-registered one), all orders, up to max_k dictionaries; plus stacks of 14 and 15 dictionaries. For each: every user word reports its declared POS strings and resolved split references (U-prefixed and inline), morphemes report the dictionary number of their source (-1 for OOV), system words report the same data as without user dictionaries, a shared key is found once per dictionary, the 15th dictionary is rejected; non-trivial = at least one user dictionary".into();
    rep.assumptions = vec!["user dictionaries of one stack are each built against the system dictionary only (a user dictionary cannot reference another user dictionary)".into()];
    let spec = spec_min("W-c12");
    let dir = write_world_files(&spec);
    let matrix = Matrix::generate(2, 2, |_, _| 0).to_text();
    let system = compile_system(&matrix, &rows_to_csv(&system_rows())).expect("system");
    let base: Dict = Arc::new(load(&dir, &bare_plugins(&pos_of(P_NOUN)), system.clone(), vec![]).expect("base"));
    let baseline: Vec<(Vec<String>, Vec<String>)> = (0..system_rows().len()).map(|i| word_fields(&base, WordId::new(0, i as u32)).expect("baseline")).collect();
    let env = Arc::new(Env { dir, matrix, system, baseline });
    let mut jobs: Vec<Box<dyn AnyJob>> = Vec::new();
    let max_k = tier.pick(4, 5);
    jobs.push(job(LayerSpace { env: env.clone(), max_k, routes: vec![false, true] }, Strategy::Bfs, Some(tier.pick(50, 3000)), json!({"max_user_dictionaries": max_k, "pos_patterns": 4, "plugin_pos": [0, 1, 2], "routes": ["bare", "loaded"]})));
    // tall stacks
    let mut tall: Vec<Layers> = Vec::new();
    for k in [14usize, 15] {
        for plugin_pos in [0u8, 2] {
            for against_loaded in [false, true] {
                for variant in 0..3 {
                    let dicts: Vec<PosPattern> = (0..k)
                        .map(|i| match (variant, i % 3) {
                            (0, _) => PosPattern::Own,
                            (1, 0) => PosPattern::Shared,
                            (1, 1) => PosPattern::Own,
                            (1, _) => PosPattern::SystemOnly,
                            (_, 0) => {
                                if plugin_pos > 0 {
                                    PosPattern::SameAsPlugin
                                } else {
                                    PosPattern::Shared
                                }
                            }
                            (_, _) => PosPattern::Shared,
                        })
                        .collect();
                    tall.push(Layers { plugin_pos, against_loaded, dicts });
                }
            }
        }
    }
    let e2 = env.clone();
    let n = tall.len();
    jobs.push(job(
        CaseSpace {
            label: "layers/tall-stacks".into(),
            cases: tall,
            check_fn: Box::new(move |l: &Layers| {
                let mut o = Outcome::new();
                check_layers(&e2, l, &mut o);
                o
            }),
            describe_fn: Box::new(|l: &Layers| json!({"plugin_pos": l.plugin_pos, "against_loaded": l.against_loaded, "dicts": l.dicts.iter().map(|p| format!("{:?}", p)).collect::<Vec<_>>()})),
        },
        Strategy::Bfs,
        Some(120),
        json!({"stacks": n, "heights": [14, 15]}),
    ));
    // the same user-dictionary file listed several times in the configuration: every listing is a
    // layer of its own, numbered by its position
    {
        let e3 = env.clone();
        let patterns: Vec<Vec<usize>> = vec![vec![1, 1], vec![1, 2, 1], vec![2, 1, 1, 2], (0..14).map(|i| 1 + i % 2).collect(), (0..15).map(|i| 1 + i % 2).collect()];
        jobs.push(job(
            CaseSpace {
                label: "layers/one-file-listed-several-times".into(),
                cases: patterns,
                check_fn: Box::new(move |pat: &Vec<usize>| {
                    let mut o = Outcome::new();
                    o.evaluations = 1;
                    o.nontrivial = true;
                    let ctx = format!("userDict list {:?} (numbers = two different files)", pat);
                    let r = catch(|| -> Result<Dict, String> {
                        let plugins = plugins_for(0);
                        let base = load(&e3.dir, &bare_plugins(&pos_of(P_NOUN)), e3.system.clone(), vec![])?;
                        let files: Vec<Vec<u8>> = vec![compile_user(&base, &rows_to_csv(&user_rows(1, PosPattern::Own)))?, compile_user(&base, &rows_to_csv(&user_rows(2, PosPattern::SystemOnly)))?];
                        let users: Vec<Vec<u8>> = pat.iter().map(|&k| files[k - 1].clone()).collect();
                        Ok(Arc::new(load_from_files(&e3.dir, &plugins, &e3.system, &users, "c12rep")?))
                    });
                    match r {
                        Err(p) => o.fail(Failure::panic(&ctx, &p)),
                        Ok(Err(e)) => {
                            if pat.len() <= 14 {
                                o.fail(Failure::new("load-error", format!("{}: {}", ctx, e)));
                            }
                        }
                        Ok(Ok(dict)) => {
                            if pat.len() > 14 {
                                o.fail(Failure::new("too-many-user-dictionaries-accepted", format!("{}: {} entries were accepted", ctx, pat.len())));
                                return o;
                            }
                            // the key shared by every dictionary is found once per listing
                            let mut got: Vec<(u8, u32)> = dict.lexicon().lookup("共".as_bytes(), 0).map(|e| (e.word_id.dic(), e.word_id.word())).collect();
                            got.sort();
                            let mut exp: Vec<(u8, u32)> = vec![(0, 3)];
                            for d in 1..=pat.len() {
                                exp.push((d as u8, 4));
                            }
                            if got != exp {
                                o.fail(Failure::new("homograph-lookup", format!("{}: lookup of the shared key returns {:?}, expected {:?}", ctx, got, exp)));
                            }
                            // each listing answers with the words of its own file
                            for (i, &k) in pat.iter().enumerate() {
                                let d = i + 1;
                                let rows = user_rows(k, if k == 1 { PosPattern::Own } else { PosPattern::SystemOnly });
                                match word_fields(&dict, WordId::new(d as u8, 0)) {
                                    Ok((pos, fields)) => {
                                        if fields[0] != rows[0].surface || pos != rows[0].pos.to_vec() {
                                            o.fail(Failure::new("user-word-fields", format!("{}: word ({}, 0) reports {:?} / {:?}, file {} declares {:?} / {:?}", ctx, d, fields[0], pos, k, rows[0].surface, rows[0].pos)));
                                        }
                                    }
                                    Err(e) => o.fail(Failure::new("user-word-unreadable", format!("{}: word ({}, 0): {}", ctx, d, e))),
                                }
                            }
                        }
                    }
                    o.observe(pat);
                    o
                }),
                describe_fn: Box::new(|p: &Vec<usize>| json!({"user_dict_list": p})),
            },
            Strategy::Bfs,
            Some(120),
            json!({"lists": 5}),
        ));
    }
    // one user dictionary compiled from several `read_lexicon` calls on one builder, one of which fails at its
    // second record (the first record, which brings a part of speech of its own, may stay or go - both are
    // accepted): every word that IS in the loaded dictionary reports the part of speech its source row declares
    {
        let e4 = env.clone();
        let mut orders: Vec<Vec<u8>> = Vec::new();
        // chunks: 0 = rows with own POS 1, 1 = half-bad (good row with own POS 2, then a malformed row), 2 = rows with own POS 3,
        // 3 = rows with system POS; every order of every subset containing the half-bad chunk
        fn perms(rest: &Vec<u8>, cur: &mut Vec<u8>, out: &mut Vec<Vec<u8>>) {
            if cur.contains(&1) && cur.len() >= 2 {
                out.push(cur.clone());
            }
            for &x in rest {
                if !cur.contains(&x) {
                    cur.push(x);
                    perms(rest, cur, out);
                    cur.pop();
                }
            }
        }
        perms(&vec![0, 1, 2, 3], &mut Vec::new(), &mut orders);
        let n = orders.len();
        jobs.push(job(
            CaseSpace {
                label: "layers/builder-used-after-a-rejected-lexicon".into(),
                cases: orders,
                check_fn: Box::new(move |order: &Vec<u8>| {
                    let mut o = Outcome::new();
                    o.nontrivial = true;
                    o.evaluations = 1;
                    let ctx = format!("user dictionary compiled from read_lexicon calls {:?} (1 = the call that fails at its second record)", order);
                    let chunk_rows = |k: u8| -> Vec<Row> {
                        let own = |d: usize, r: Row| -> Row {
                            let mut r = r;
                            r.pos = own_pos(d);
                            r
                        };
                        match k {
                            0 => vec![own(1, Row::new("かあ", 1, 1, 10, P_NOUN).reading("カア")), own(1, Row::new("かい", 1, 1, 10, P_NOUN).reading("カイ"))],
                            1 => vec![own(2, Row::new("きあ", 1, 1, 10, P_NOUN).reading("キア"))],
                            2 => vec![own(3, Row::new("くあ", 1, 1, 10, P_NOUN).reading("クア")), own(4, Row::new("くい", 1, 1, 10, P_NOUN).reading("クイ"))],
                            _ => vec![Row::new("けあ", 1, 1, 10, P_PROPN).reading("ケア")],
                        }
                    };
                    let r = catch(|| -> Result<Dict, String> {
                        let base = load(&e4.dir, &bare_plugins(&pos_of(P_NOUN)), e4.system.clone(), vec![])?;
                        let mut b = sudachi::dic::build::DictBuilder::new_user(&base);
                        for &k in order {
                            let mut csv = rows_to_csv(&chunk_rows(k));
                            if k == 1 {
                                csv.push_str("きい,1,1\n");
                                if b.read_lexicon(csv.as_bytes()).is_ok() {
                                    return Err("the malformed record was accepted".into());
                                }
                            } else {
                                b.read_lexicon(csv.as_bytes()).map_err(|e| format!("read_lexicon({}): {}", k, e))?;
                            }
                        }
                        b.resolve().map_err(|e| format!("resolve: {}", e))?;
                        let mut out = Vec::new();
                        b.compile(&mut out).map_err(|e| format!("compile: {}", e))?;
                        Ok(Arc::new(load(&e4.dir, &bare_plugins(&pos_of(P_NOUN)), e4.system.clone(), vec![out])?))
                    });
                    let dict = match r {
                        Err(p) => {
                            o.fail(Failure::panic(&ctx, &p));
                            return o;
                        }
                        Ok(Err(e)) => {
                            if e.contains("malformed record was accepted") {
                                // whether a record is well-formed is not this property's business
                                o.count("malformed_record_accepted", 1);
                            } else {
                                o.fail(Failure::new("load-error", format!("{}: {}", ctx, e)));
                            }
                            return o;
                        }
                        Ok(Ok(d)) => d,
                    };
                    let r = catch(|| {
                        let mut f: Vec<Failure> = Vec::new();
                        let mut present = 0u64;
                        for &k in order {
                            for row in chunk_rows(k) {
                                let hits: Vec<WordId> = dict.lexicon().lookup(row.surface.as_bytes(), 0).filter(|e| e.end == row.surface.len() && e.word_id.dic() == 1).map(|e| e.word_id).collect();
                                if hits.is_empty() {
                                    if k != 1 {
                                        f.push(Failure::new("user-word-unreadable", format!("{}: the word {:?} of an accepted call is not in the loaded dictionary", ctx, row.surface)));
                                    }
                                    continue;
                                }
                                present += 1;
                                for wid in hits {
                                    match word_fields(&dict, wid) {
                                        Err(e) => f.push(Failure::new("user-word-unreadable", format!("{}: word {:?}: {}", ctx, row.surface, e))),
                                        Ok((pos, fields)) => {
                                            if pos != row.pos.to_vec() {
                                                f.push(Failure::new("part-of-speech-differs", format!("{}: word {:?} reports part of speech {:?}, its source declares {:?}", ctx, row.surface, pos, row.pos)));
                                            }
                                            if fields[0] != row.headword || fields[1] != row.reading {
                                                f.push(Failure::new("user-word-fields", format!("{}: word {:?} reports {:?}", ctx, row.surface, fields)));
                                            }
                                        }
                                    }
                                    // and the morpheme says the same
                                    match analyze(&dict, Mode::C, &row.surface) {
                                        Ok(t) => {
                                            if t.len() == 1 && t[0].dic_id == 1 && t[0].pos != row.pos.to_vec() {
                                                f.push(Failure::new("part-of-speech-differs", format!("{}: {:?} is analysed with part of speech {:?}, its source declares {:?}", ctx, row.surface, t[0].pos, row.pos)));
                                            }
                                        }
                                        Err(e) => f.push(Failure::new("analysis-error", format!("{}: analysing {:?}: {:?}", ctx, row.surface, e))),
                                    }
                                }
                            }
                        }
                        (f, present)
                    });
                    match r {
                        Err(p) => o.fail(Failure::panic(&format!("{}: reading back", ctx), &p)),
                        Ok((f, present)) => {
                            o.failures.extend(f);
                            o.observe(&present);
                        }
                    }
                    o
                }),
                describe_fn: Box::new(|p: &Vec<u8>| json!({"read_lexicon_calls": p})),
            },
            Strategy::Bfs,
            Some(120),
            json!({"call_orders": n}),
        ));
    }
    drive(rep, jobs, replay)
}
