pub mod evidence;
pub mod explore;
pub mod findings;
pub mod oovref;
pub mod panics;
pub mod refmodel;
pub mod worlds;
