//! Failures and the committed list of known findings.
//!
//! `/verif/known_findings.json` lists genuine defects of sudachi.rs that were recorded rather than
//! repaired (`status: "open"`) and defects that were repaired (`status: "fixed"`, which suppress
//! nothing).  An open entry is identified by the oracle clause that fails (`kind`), optionally the
//! panic site (`site`, path without line number) and optionally substrings of the failure detail
//! (`detail_contains`, a string or a list of strings that must all occur), so that a different violation of the same property is still reported.
//! The file is never written at run time.

use crate::common::panics::{site_of, PanicInfo};
use serde_json::{json, Value};
use std::path::Path;

#[derive(Debug, Clone)]
pub struct Failure {
    /// oracle clause that failed, e.g. "surface-mismatch", "panic"
    pub kind: String,
    /// for panics: crate-relative source file of the panic
    pub site: String,
    /// details: expected vs observed
    pub detail: String,
}

impl Failure {
    pub fn new(kind: &str, detail: impl Into<String>) -> Self {
        Failure { kind: kind.to_string(), site: String::new(), detail: detail.into() }
    }
    pub fn panic(ctx: &str, p: &PanicInfo) -> Self {
        Failure {
            kind: "panic".to_string(),
            site: site_of(p),
            detail: format!("[{}] panic at {}: {}", ctx, p.location, p.message),
        }
    }
    pub fn to_json(&self) -> Value {
        json!({"kind": self.kind, "site": self.site, "detail": self.detail})
    }
}

#[derive(Debug, Clone)]
pub struct Finding {
    pub id: String,
    pub property: String,
    pub status: String,
    pub kind: String,
    pub site: Option<String>,
    pub detail_contains: Vec<String>,
    pub what: String,
    pub commit: Option<String>,
}

#[derive(Debug, Default)]
pub struct KnownFindings {
    pub entries: Vec<Finding>,
}

impl KnownFindings {
    pub fn load(path: &Path) -> Self {
        let mut k = KnownFindings::default();
        let txt = match std::fs::read_to_string(path) {
            Ok(t) => t,
            Err(_) => return k,
        };
        let v: Value = serde_json::from_str(&txt).expect("known_findings.json is not valid JSON");
        for e in v["findings"].as_array().cloned().unwrap_or_default() {
            let s = |k: &str| e[k].as_str().map(|x| x.to_string());
            k.entries.push(Finding {
                id: s("id").expect("finding without id"),
                property: s("property").expect("finding without property"),
                status: s("status").unwrap_or_else(|| "open".into()),
                kind: s("kind").unwrap_or_default(),
                site: s("site"),
                detail_contains: match &e["detail_contains"] {
                    Value::String(x) => vec![x.clone()],
                    Value::Array(a) => a.iter().filter_map(|x| x.as_str().map(|y| y.to_string())).collect(),
                    _ => vec![],
                },
                what: s("what").unwrap_or_default(),
                commit: s("commit"),
            });
        }
        k
    }

    /// id of the open finding that covers this failure, if any
    pub fn matches(&self, property: &str, f: &Failure) -> Option<String> {
        for e in &self.entries {
            if e.status != "open" || e.property != property || e.kind != f.kind {
                continue;
            }
            if let Some(site) = &e.site {
                if &f.site != site {
                    continue;
                }
            }
            if !e.detail_contains.iter().all(|dc| f.detail.contains(dc.as_str())) {
                continue;
            }
            return Some(e.id.clone());
        }
        None
    }

    pub fn what(&self, id: &str) -> String {
        self.entries
            .iter()
            .find(|e| e.id == id)
            .map(|e| e.what.clone())
            .unwrap_or_default()
    }
}
