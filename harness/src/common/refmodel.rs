//! Shared observation helpers and small reference functions.

use std::sync::Arc;
use sudachi::analysis::stateful_tokenizer::StatefulTokenizer;
use sudachi::analysis::stateless_tokenizer::DictionaryAccess;
use sudachi::analysis::Mode;
use sudachi::dic::dictionary::JapaneseDictionary;
use sudachi::dic::subset::InfoSubset;
use sudachi::input_text::InputBuffer;
use sudachi::prelude::{MorphemeList, SudachiError};

pub type Dict = Arc<JapaneseDictionary>;

pub const MODES: [Mode; 3] = [Mode::A, Mode::B, Mode::C];

pub fn mode_name(m: Mode) -> &'static str {
    match m {
        Mode::A => "A",
        Mode::B => "B",
        Mode::C => "C",
    }
}

/// Everything observable about one morpheme
#[derive(Clone, Debug, PartialEq, Eq, Hash)]
pub struct Tok {
    pub begin: usize,
    pub end: usize,
    pub begin_c: usize,
    pub end_c: usize,
    pub surface: String,
    pub pos_id: u16,
    pub pos: Vec<String>,
    pub normalized: String,
    pub dictionary: String,
    pub reading: String,
    pub word_id: u32,
    pub dic_id: i32,
    pub is_oov: bool,
    pub synonyms: Vec<u32>,
    pub total_cost: i32,
    pub wi_surface: String,
    pub head_word_length: usize,
    pub a_split: Vec<u32>,
    pub b_split: Vec<u32>,
    pub word_structure: Vec<u32>,
    pub dic_form_wid: i32,
}

pub fn tok_of(m: &sudachi::prelude::Morpheme<'_, Dict>) -> Tok {
    let wi = m.get_word_info();
    Tok {
        begin: m.begin(),
        end: m.end(),
        begin_c: m.begin_c(),
        end_c: m.end_c(),
        surface: m.surface().to_string(),
        pos_id: m.part_of_speech_id(),
        pos: m.part_of_speech().to_vec(),
        normalized: m.normalized_form().to_string(),
        dictionary: m.dictionary_form().to_string(),
        reading: m.reading_form().to_string(),
        word_id: m.word_id().as_raw(),
        dic_id: m.dictionary_id(),
        is_oov: m.is_oov(),
        synonyms: m.synonym_group_ids().to_vec(),
        total_cost: m.total_cost(),
        wi_surface: wi.surface().to_string(),
        head_word_length: wi.head_word_length(),
        a_split: wi.a_unit_split().iter().map(|w| w.as_raw()).collect(),
        b_split: wi.b_unit_split().iter().map(|w| w.as_raw()).collect(),
        word_structure: wi.word_structure().iter().map(|w| w.as_raw()).collect(),
        dic_form_wid: wi.dictionary_form_word_id(),
    }
}

pub fn toks_of(l: &MorphemeList<Dict>) -> Vec<Tok> {
    l.iter().map(|m| tok_of(&m)).collect()
}

#[derive(Debug, Clone, PartialEq, Eq)]
pub enum AErr {
    TooLong(usize, usize),
    Other(String),
}

pub fn classify_err(e: &SudachiError) -> AErr {
    match e {
        SudachiError::InputTooLong(a, b) => AErr::TooLong(*a, *b),
        other => AErr::Other(format!("{}", other)),
    }
}

/// Analyse with a fresh tokenizer, collect into a fresh list
pub fn analyze_list(dict: &Dict, mode: Mode, subset: Option<InfoSubset>, text: &str) -> Result<MorphemeList<Dict>, AErr> {
    let mut tok = StatefulTokenizer::new(dict.clone(), mode);
    if let Some(s) = subset {
        tok.set_subset(s);
    }
    tok.reset().push_str(text);
    tok.do_tokenize().map_err(|e| classify_err(&e))?;
    let mut list = MorphemeList::empty(dict.clone());
    list.collect_results(&mut tok).map_err(|e| classify_err(&e))?;
    Ok(list)
}

pub fn analyze(dict: &Dict, mode: Mode, text: &str) -> Result<Vec<Tok>, AErr> {
    analyze_list(dict, mode, None, text).map(|l| toks_of(&l))
}

/// The normalised text as produced by the world's input-text plugins on a separate buffer
pub fn normalized_text(dict: &Dict, text: &str) -> Result<String, AErr> {
    let mut buf = InputBuffer::new();
    buf.reset().push_str(text);
    buf.start_build().map_err(|e| classify_err(&e))?;
    for p in dict.input_text_plugins() {
        p.rewrite(&mut buf).map_err(|e| classify_err(&e))?;
    }
    Ok(buf.current().to_string())
}

/// Built input buffer (normalised + categories) for a text
pub fn built_buffer(dict: &Dict, text: &str) -> Result<InputBuffer, AErr> {
    let mut buf = InputBuffer::new();
    buf.reset().push_str(text);
    buf.start_build().map_err(|e| classify_err(&e))?;
    for p in dict.input_text_plugins() {
        p.rewrite(&mut buf).map_err(|e| classify_err(&e))?;
    }
    buf.build(dict.grammar()).map_err(|e| classify_err(&e))?;
    Ok(buf)
}

pub fn boundaries(toks: &[Tok]) -> Vec<usize> {
    let mut b: Vec<usize> = vec![];
    for t in toks {
        b.push(t.begin);
        b.push(t.end);
    }
    b.sort();
    b.dedup();
    b
}

// ---------------------------------------------------------------------------------------------
// Reference normaliser (C07): written from the statement, not from the implementation.

use std::collections::HashSet;
use unicode_normalization::UnicodeNormalization;

#[derive(Clone, Debug, Default)]
pub struct RewriteTable {
    pub exempt: HashSet<char>,
    pub map: Vec<(String, String)>,
}

impl RewriteTable {
    /// rewrite.def: one character per line = exempt from NFKC; two columns = replacement
    pub fn parse(text: &str) -> RewriteTable {
        let mut t = RewriteTable::default();
        for line in text.lines() {
            let line = line.trim();
            if line.is_empty() || line.starts_with('#') {
                continue;
            }
            let cols: Vec<&str> = line.split_whitespace().collect();
            if cols.len() == 1 {
                t.exempt.insert(cols[0].chars().next().unwrap());
            } else if cols.len() == 2 {
                t.map.push((cols[0].to_string(), cols[1].to_string()));
            }
        }
        t
    }

    /// longest key that is a prefix of `s`
    pub fn longest_key(&self, s: &str) -> Option<&(String, String)> {
        let mut best: Option<&(String, String)> = None;
        for kv in &self.map {
            if s.starts_with(kv.0.as_str()) && best.map(|b| b.0.len() < kv.0.len()).unwrap_or(true) {
                best = Some(kv);
            }
        }
        best
    }

    /// the function applied to a character that is not covered by a key
    pub fn norm_char(&self, c: char) -> String {
        let lowered: String = if c.is_uppercase() { c.to_lowercase().collect() } else { c.to_string() };
        if self.exempt.contains(&c) {
            lowered
        } else {
            lowered.nfkc().collect()
        }
    }

    /// spans of the input with their rewritten text, left to right
    pub fn spans(&self, s: &str) -> Vec<(std::ops::Range<usize>, String)> {
        let mut out = Vec::new();
        let mut i = 0;
        while i < s.len() {
            if let Some((k, v)) = self.longest_key(&s[i..]) {
                out.push((i..i + k.len(), v.clone()));
                i += k.len();
            } else {
                let c = s[i..].chars().next().unwrap();
                out.push((i..i + c.len_utf8(), self.norm_char(c)));
                i += c.len_utf8();
            }
        }
        out
    }

    pub fn normalize(&self, s: &str) -> String {
        self.spans(s).into_iter().map(|(_, t)| t).collect()
    }
}

/// prolonged sound marks: maximal runs of >= 2 marks collapse to the replacement symbol
pub fn ref_prolonged(marks: &[char], repl: &str, s: &str) -> String {
    let cs: Vec<char> = s.chars().collect();
    let mut out = String::new();
    let mut i = 0;
    while i < cs.len() {
        if marks.contains(&cs[i]) {
            let mut j = i;
            while j < cs.len() && marks.contains(&cs[j]) {
                j += 1;
            }
            if j - i >= 2 {
                out.push_str(repl);
            } else {
                out.push(cs[i]);
            }
            i = j;
        } else {
            out.push(cs[i]);
            i += 1;
        }
    }
    out
}

/// yomigana: kanji, opening bracket, 1..=max kana, closing bracket -> drop the bracketed part;
/// leftmost, non-overlapping
pub fn ref_yomigana(
    is_kanji: &dyn Fn(char) -> bool,
    is_kana: &dyn Fn(char) -> bool,
    left: &[char],
    right: &[char],
    max: usize,
    s: &str,
) -> String {
    let cs: Vec<char> = s.chars().collect();
    let mut out = String::new();
    let mut i = 0;
    while i < cs.len() {
        let mut matched = None;
        if is_kanji(cs[i]) && i + 1 < cs.len() && left.contains(&cs[i + 1]) {
            let mut j = i + 2;
            let mut k = 0;
            while j < cs.len() && is_kana(cs[j]) && k < max {
                j += 1;
                k += 1;
            }
            // regex backtracking: any 1..=k kana followed by a closing bracket
            let mut kk = k;
            while kk >= 1 {
                let close = i + 2 + kk;
                if close < cs.len() && right.contains(&cs[close]) {
                    matched = Some(close);
                    break;
                }
                kk -= 1;
            }
        }
        match matched {
            Some(close) => {
                out.push(cs[i]);
                i = close + 1;
            }
            None => {
                out.push(cs[i]);
                i += 1;
            }
        }
    }
    out
}
