//! Shared observation helpers and small reference functions.

use std::sync::Arc;
use sudachi::analysis::stateful_tokenizer::StatefulTokenizer;
use sudachi::analysis::stateless_tokenizer::DictionaryAccess;
use sudachi::analysis::Mode;
use sudachi::dic::dictionary::JapaneseDictionary;
use sudachi::dic::subset::InfoSubset;
use sudachi::input_text::InputBuffer;
use sudachi::prelude::{MorphemeList, SudachiError};

pub type Dict = Arc<JapaneseDictionary>;

pub const MODES: [Mode; 3] = [Mode::A, Mode::B, Mode::C];

pub fn mode_name(m: Mode) -> &'static str {
    match m {
        Mode::A => "A",
        Mode::B => "B",
        Mode::C => "C",
    }
}

/// Everything observable about one morpheme
#[derive(Clone, Debug, PartialEq, Eq, Hash)]
pub struct Tok {
    pub begin: usize,
    pub end: usize,
    pub begin_c: usize,
    pub end_c: usize,
    pub surface: String,
    pub pos_id: u16,
    pub pos: Vec<String>,
    pub normalized: String,
    pub dictionary: String,
    pub reading: String,
    pub word_id: u32,
    pub dic_id: i32,
    pub is_oov: bool,
    pub synonyms: Vec<u32>,
    pub total_cost: i32,
    pub wi_surface: String,
    pub head_word_length: usize,
    pub a_split: Vec<u32>,
    pub b_split: Vec<u32>,
    pub word_structure: Vec<u32>,
    pub dic_form_wid: i32,
}

pub fn tok_of(m: &sudachi::prelude::Morpheme<'_, Dict>) -> Tok {
    let wi = m.get_word_info();
    Tok {
        begin: m.begin(),
        end: m.end(),
        begin_c: m.begin_c(),
        end_c: m.end_c(),
        surface: m.surface().to_string(),
        pos_id: m.part_of_speech_id(),
        pos: m.part_of_speech().to_vec(),
        normalized: m.normalized_form().to_string(),
        dictionary: m.dictionary_form().to_string(),
        reading: m.reading_form().to_string(),
        word_id: m.word_id().as_raw(),
        dic_id: m.dictionary_id(),
        is_oov: m.is_oov(),
        synonyms: m.synonym_group_ids().to_vec(),
        total_cost: m.total_cost(),
        wi_surface: wi.surface().to_string(),
        head_word_length: wi.head_word_length(),
        a_split: wi.a_unit_split().iter().map(|w| w.as_raw()).collect(),
        b_split: wi.b_unit_split().iter().map(|w| w.as_raw()).collect(),
        word_structure: wi.word_structure().iter().map(|w| w.as_raw()).collect(),
        dic_form_wid: wi.dictionary_form_word_id(),
    }
}

pub fn toks_of(l: &MorphemeList<Dict>) -> Vec<Tok> {
    l.iter().map(|m| tok_of(&m)).collect()
}

#[derive(Debug, Clone, PartialEq, Eq)]
pub enum AErr {
    TooLong(usize, usize),
    Other(String),
}

pub fn classify_err(e: &SudachiError) -> AErr {
    match e {
        SudachiError::InputTooLong(a, b) => AErr::TooLong(*a, *b),
        other => AErr::Other(format!("{}", other)),
    }
}

/// Analyse with a fresh tokenizer, collect into a fresh list
pub fn analyze_list(dict: &Dict, mode: Mode, subset: Option<InfoSubset>, text: &str) -> Result<MorphemeList<Dict>, AErr> {
    let mut tok = StatefulTokenizer::new(dict.clone(), mode);
    if let Some(s) = subset {
        tok.set_subset(s);
    }
    tok.reset().push_str(text);
    tok.do_tokenize().map_err(|e| classify_err(&e))?;
    let mut list = MorphemeList::empty(dict.clone());
    list.collect_results(&mut tok).map_err(|e| classify_err(&e))?;
    Ok(list)
}

pub fn analyze(dict: &Dict, mode: Mode, text: &str) -> Result<Vec<Tok>, AErr> {
    analyze_list(dict, mode, None, text).map(|l| toks_of(&l))
}

/// The normalised text as produced by the world's input-text plugins on a separate buffer
pub fn normalized_text(dict: &Dict, text: &str) -> Result<String, AErr> {
    let mut buf = InputBuffer::new();
    buf.reset().push_str(text);
    buf.start_build().map_err(|e| classify_err(&e))?;
    for p in dict.input_text_plugins() {
        p.rewrite(&mut buf).map_err(|e| classify_err(&e))?;
    }
    Ok(buf.current().to_string())
}

/// Built input buffer (normalised + categories) for a text
pub fn built_buffer(dict: &Dict, text: &str) -> Result<InputBuffer, AErr> {
    let mut buf = InputBuffer::new();
    buf.reset().push_str(text);
    buf.start_build().map_err(|e| classify_err(&e))?;
    for p in dict.input_text_plugins() {
        p.rewrite(&mut buf).map_err(|e| classify_err(&e))?;
    }
    buf.build(dict.grammar()).map_err(|e| classify_err(&e))?;
    Ok(buf)
}

pub fn boundaries(toks: &[Tok]) -> Vec<usize> {
    let mut b: Vec<usize> = vec![];
    for t in toks {
        b.push(t.begin);
        b.push(t.end);
    }
    b.sort();
    b.dedup();
    b
}
