//! Aggregation of exploration runs into the evidence file, replay files and the process verdict.

use crate::common::explore::RunResult;
use crate::common::findings::{Failure, KnownFindings};
use serde_json::{json, Value};
use std::collections::BTreeMap;
use std::path::PathBuf;
use std::sync::Arc;
use std::time::Instant;

pub fn verif_root() -> PathBuf {
    std::env::var("VERIF_ROOT")
        .map(PathBuf::from)
        .unwrap_or_else(|_| PathBuf::from("/verif"))
}

#[derive(Clone, Copy, PartialEq, Eq, Debug)]
pub enum Tier {
    Quick,
    Thorough,
}

impl Tier {
    pub fn name(&self) -> &'static str {
        match self {
            Tier::Quick => "quick",
            Tier::Thorough => "thorough",
        }
    }
    pub fn pick<T>(&self, q: T, t: T) -> T {
        match self {
            Tier::Quick => q,
            Tier::Thorough => t,
        }
    }
}

pub struct Report {
    pub property: String,
    pub level: &'static str,
    pub tier: Tier,
    pub seed: i64,
    pub known: Arc<KnownFindings>,
    pub t0: Instant,
    pub rule: String,
    pub assumptions: Vec<String>,
    pub parts: Vec<Value>,
    pub states: u64,
    pub generated: u64,
    pub transitions: u64,
    pub max_depth: u64,
    pub evaluations: u64,
    pub nontrivial: u64,
    pub distinct_observations: u64,
    pub validated: u64,
    pub counters: BTreeMap<String, u64>,
    pub samples: Vec<Value>,
    pub violations: Vec<(String, Value, Vec<Failure>)>,
    pub known_seen: BTreeMap<String, (u64, Value)>,
    pub caps_hit: Vec<String>,
    pub bounds: Vec<Value>,
    pub extra: BTreeMap<String, Value>,
}

impl Report {
    pub fn new(property: &str, level: &'static str, tier: Tier) -> Report {
        let seed = std::env::var("VERIF_SEED")
            .ok()
            .and_then(|s| s.parse().ok())
            .unwrap_or(0);
        let known = Arc::new(KnownFindings::load(&verif_root().join("known_findings.json")));
        Report {
            property: property.to_string(),
            level,
            tier,
            seed,
            known,
            t0: Instant::now(),
            rule: String::new(),
            assumptions: Vec::new(),
            parts: Vec::new(),
            states: 0,
            generated: 0,
            transitions: 0,
            max_depth: 0,
            evaluations: 0,
            nontrivial: 0,
            distinct_observations: 0,
            validated: 0,
            counters: BTreeMap::new(),
            samples: Vec::new(),
            violations: Vec::new(),
            known_seen: BTreeMap::new(),
            caps_hit: Vec::new(),
            bounds: Vec::new(),
            extra: BTreeMap::new(),
        }
    }

    pub fn has_violation(&self) -> bool {
        !self.violations.is_empty()
    }

    /// merge the result of one exploration; `bound` describes the bound that this run completed
    pub fn add(&mut self, r: RunResult, bound: Value) {
        self.states += r.unique_states;
        self.generated += r.generated_states;
        self.transitions += r.transitions;
        self.max_depth = self.max_depth.max(r.max_depth);
        self.evaluations += r.evaluations;
        self.nontrivial += r.nontrivial;
        self.distinct_observations += r.distinct_observations;
        self.validated += r.states_checked;
        for (k, v) in &r.counters {
            *self.counters.entry(k.to_string()).or_insert(0) += v;
        }
        for s in r.samples.iter().take(4) {
            if self.samples.len() < 24 {
                self.samples.push(json!({"space": r.space, "case": s}));
            }
        }
        for (k, (n, ex)) in &r.known_seen {
            let e = self.known_seen.entry(k.clone()).or_insert((0, ex.clone()));
            e.0 += n;
        }
        if r.timed_out {
            self.caps_hit
                .push(format!("{}: time or memory cap hit after {:.1}s, {} states checked", r.space, r.wall_s, r.states_checked));
        }
        self.parts.push(json!({
            "space": r.space, "unique_states": r.unique_states, "generated_states": r.generated_states,
            "transitions": r.transitions, "max_depth": r.max_depth, "states_checked": r.states_checked,
            "evaluations": r.evaluations, "nontrivial": r.nontrivial,
            "distinct_observations": r.distinct_observations, "completed": !r.timed_out && r.violation.is_none(),
            "wall_s": (r.wall_s * 100.0).round() / 100.0, "bound": bound.clone(), "counters": r.counters,
        }));
        if !r.timed_out && r.violation.is_none() {
            self.bounds.push(json!({"space": r.space, "bound": bound}));
        }
        if let Some((state, fails)) = r.violation {
            self.violations.push((r.space.clone(), state, fails));
        }
    }

    /// record a directly executed case list (no stateright run), e.g. structured worlds
    pub fn add_direct(&mut self, space: &str, cases: u64, nontrivial: u64, distinct: u64, samples: Vec<Value>, failures: Vec<(Value, Failure)>, bound: Value) {
        self.states += cases;
        self.generated += cases;
        self.transitions += cases;
        self.evaluations += cases;
        self.validated += cases;
        self.nontrivial += nontrivial;
        self.distinct_observations += distinct;
        for s in samples.into_iter().take(3) {
            if self.samples.len() < 24 {
                self.samples.push(json!({"space": space, "case": s}));
            }
        }
        let mut unknown: Vec<(Value, Failure)> = Vec::new();
        for (st, f) in failures {
            match self.known.matches(&self.property, &f) {
                Some(id) => {
                    let e = self
                        .known_seen
                        .entry(id)
                        .or_insert((0, json!({"state": st, "failure": f.to_json()})));
                    e.0 += 1;
                }
                None => unknown.push((st, f)),
            }
        }
        let ok = unknown.is_empty();
        self.parts.push(json!({"space": space, "unique_states": cases, "completed": ok, "bound": bound.clone(), "direct_enumeration": true}));
        if ok {
            self.bounds.push(json!({"space": space, "bound": bound}));
        }
        if let Some((st, f)) = unknown.into_iter().next() {
            self.violations.push((space.to_string(), st, vec![f]));
        }
    }

    /// write evidence + replay, print verdict lines, return exit code
    pub fn finish(mut self) -> i32 {
        let root = verif_root();
        let wall = self.t0.elapsed().as_secs_f64();
        let mut replay_paths = Vec::new();
        if !self.violations.is_empty() {
            let dir = root.join("replays").join(&self.property);
            let _ = std::fs::create_dir_all(&dir);
            for (i, (space, state, fails)) in self.violations.iter().enumerate() {
                let p = dir.join(format!("{}-{}.json", self.tier.name(), i));
                let body = json!({
                    "property": self.property, "space": space, "state": state,
                    "failures": fails.iter().map(|f| f.to_json()).collect::<Vec<_>>(),
                });
                std::fs::write(&p, serde_json::to_string_pretty(&body).unwrap()).expect("cannot write replay");
                replay_paths.push(p);
            }
        }
        if self.samples.is_empty() {
            self.samples.push(json!("no state was explored"));
        }
        let exhaustive = self.caps_hit.is_empty() && self.violations.is_empty();
        let mut coverage = json!({
            "states": self.states.max(1),
            "transitions": self.transitions.max(1),
            "generated_states_incl_repeats": self.generated,
            "max_depth": self.max_depth,
            "traces_validated_against_impl": self.validated,
            "evaluations": self.evaluations.max(1),
            "distinct_nontrivial": self.nontrivial,
            "distinct_observed_outcomes": self.distinct_observations,
            "rule": self.rule,
            "samples": self.samples,
            "exhaustive": exhaustive,
            "bounds_completed": self.bounds,
            "caps_hit": self.caps_hit,
            "runs": self.parts,
            "counters": self.counters,
            "known_findings_reobserved": self.known_seen.iter().map(|(k, (n, ex))| json!({"id": k, "states": n, "example": ex})).collect::<Vec<_>>(),
            "explanation": "every state of each listed space was generated by the stateright checker and the real sudachi code was executed on it (the model is the implementation); traces_validated_against_impl counts those executions",
        });
        for (k, v) in &self.extra {
            coverage[k] = v.clone();
        }
        let ev = json!({
            "property_id": self.property,
            "tier": self.tier.name(),
            "seed": self.seed,
            "level": self.level,
            "coverage": coverage,
            "assumptions": self.assumptions,
            "wall_s": (wall * 100.0).round() / 100.0,
            "violations": self.violations.len(),
        });
        let evdir = root.join("evidence");
        let _ = std::fs::create_dir_all(&evdir);
        std::fs::write(
            evdir.join(format!("{}.json", self.property)),
            serde_json::to_string_pretty(&ev).unwrap(),
        )
        .expect("cannot write evidence");

        for (k, (n, _)) in &self.known_seen {
            println!(
                "KNOWN-FINDING: property={} {} [{}; re-observed on {} states]",
                self.property,
                self.known.what(k),
                k,
                n
            );
        }
        println!(
            "{} {}: states={} transitions={} evaluations={} nontrivial={} distinct_outcomes={} max_depth={} wall={:.1}s exhaustive={}",
            self.property, self.tier.name(), self.states, self.transitions, self.evaluations, self.nontrivial,
            self.distinct_observations, self.max_depth, wall, exhaustive
        );
        for c in &self.caps_hit {
            println!("CAP: {}", c);
        }
        if !self.violations.is_empty() {
            for ((space, state, fails), p) in self.violations.iter().zip(replay_paths.iter()) {
                eprintln!("violation in {}: state={} ", space, state);
                for f in fails.iter().take(3) {
                    eprintln!("   {}: {}", f.kind, f.detail);
                }
                println!("VIOLATION property={} replay={}", self.property, p.display());
            }
            return 1;
        }
        if self.states == 0 {
            eprintln!("machinery failure: nothing was explored");
            return 2;
        }
        if self.bounds.is_empty() {
            // every part hit its time cap: what was explored held, and the evidence says so
            println!("NOTE: no bound was completed within the time caps (exhaustive=false); the property held on the {} states explored", self.states);
        }
        0
    }
}
