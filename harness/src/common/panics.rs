//! Panic capture: every execution of the subject runs inside `catch`; the panic hook records
//! location and message in a thread-local instead of printing.

use std::cell::RefCell;
use std::panic::{catch_unwind, AssertUnwindSafe};

#[derive(Debug, Clone, PartialEq, Eq)]
pub struct PanicInfo {
    pub location: String,
    pub message: String,
}

thread_local! {
    static LAST: RefCell<Option<PanicInfo>> = RefCell::new(None);
}

pub fn install_hook() {
    let verbose = std::env::var("VERIF_VERBOSE_PANICS").is_ok();
    std::panic::set_hook(Box::new(move |info| {
        let location = info
            .location()
            .map(|l| format!("{}:{}", l.file(), l.line()))
            .unwrap_or_else(|| "?".to_string());
        let message = if let Some(s) = info.payload().downcast_ref::<&str>() {
            s.to_string()
        } else if let Some(s) = info.payload().downcast_ref::<String>() {
            s.clone()
        } else {
            "<non-string panic>".to_string()
        };
        if verbose {
            eprintln!("panic at {}: {}", location, message);
        }
        LAST.with(|l| *l.borrow_mut() = Some(PanicInfo { location, message }));
    }));
}

/// Run `f`, turning a panic into `Err(PanicInfo)`
pub fn catch<T>(f: impl FnOnce() -> T) -> Result<T, PanicInfo> {
    LAST.with(|l| *l.borrow_mut() = None);
    match catch_unwind(AssertUnwindSafe(f)) {
        Ok(v) => Ok(v),
        Err(_) => Err(LAST.with(|l| l.borrow_mut().take()).unwrap_or(PanicInfo {
            location: "?".into(),
            message: "?".into(),
        })),
    }
}

/// location made independent of the checkout path: `sudachi/src/...:line` -> `src/...` (no line)
pub fn site_of(p: &PanicInfo) -> String {
    let loc = p.location.as_str();
    let loc = match loc.find("/src/") {
        Some(i) => {
            // keep crate dir name + path
            let pre = &loc[..i];
            let krate = pre.rsplit('/').next().unwrap_or("");
            format!("{}{}", krate, &loc[i..])
        }
        None => loc.to_string(),
    };
    // strip line number
    match loc.rfind(':') {
        Some(i) => loc[..i].to_string(),
        None => loc,
    }
}
