//! E1: explicit-state exploration with stateright.
//!
//! A `Space` describes a finite state graph whose states are *histories* (a string built symbol by
//! symbol, an operation list, a configuration under construction).  `check` executes the real
//! sudachi code for that history and compares it with the reference model.  The stateright checker
//! enumerates every reachable state exactly once (BFS or DFS, all cores) and evaluates the single
//! `always` property "oracle" on each of them.

use crate::common::findings::{Failure, KnownFindings};
use crate::common::panics::catch;
use serde_json::{json, Value};
use stateright::{Checker, Model, Property};
use std::collections::hash_map::DefaultHasher;
use std::collections::HashSet;
use std::fmt::Debug;
use std::hash::{Hash, Hasher};
use std::sync::atomic::{AtomicBool, AtomicU64, Ordering};
use std::sync::{Arc, Mutex};
use std::time::{Duration, Instant};

/// Result of evaluating one state
#[derive(Default, Debug)]
pub struct Outcome {
    /// number of executions of the implementation performed for this state
    pub evaluations: u64,
    /// the state is non-trivial according to the check's rule
    pub nontrivial: bool,
    /// hash of what was observed (vacuity guard: number of distinct observations is reported)
    pub observation: u64,
    /// oracle violations (empty = property held on this state)
    pub failures: Vec<Failure>,
    /// extra counters merged into the evidence (name, increment)
    pub counters: Vec<(&'static str, u64)>,
}

impl Outcome {
    pub fn new() -> Self {
        Default::default()
    }
    pub fn fail(&mut self, f: Failure) {
        self.failures.push(f)
    }
    pub fn count(&mut self, name: &'static str, n: u64) {
        self.counters.push((name, n))
    }
    pub fn observe<T: Hash>(&mut self, t: &T) {
        let mut h = DefaultHasher::new();
        self.observation.hash(&mut h);
        t.hash(&mut h);
        self.observation = h.finish();
    }
}

pub trait Space: Send + Sync + 'static {
    type State: Clone + Debug + Hash + Eq + Send + Sync + 'static;
    fn name(&self) -> String;
    fn init(&self) -> Vec<Self::State>;
    fn next(&self, s: &Self::State, out: &mut Vec<Self::State>);
    /// run the implementation on this state and compare with the reference
    fn check(&self, s: &Self::State) -> Outcome;
    /// human-readable / replayable description
    fn describe(&self, s: &Self::State) -> Value;
    /// inverse of `describe` (for `--replay`)
    fn parse(&self, v: &Value) -> Option<Self::State>;
}

pub struct Stats {
    pub evaluations: AtomicU64,
    pub states_checked: AtomicU64,
    pub transitions: AtomicU64,
    pub nontrivial: AtomicU64,
    pub known_hits: AtomicU64,
    pub observations: Mutex<HashSet<u64>>,
    pub counters: Mutex<std::collections::BTreeMap<&'static str, u64>>,
    pub samples: Mutex<Vec<Value>>,
    pub violation: Mutex<Option<(Value, Vec<Failure>)>>,
    pub known_seen: Mutex<std::collections::BTreeMap<String, (u64, Value)>>,
    pub stop: AtomicBool,
}

impl Default for Stats {
    fn default() -> Self {
        Stats {
            evaluations: AtomicU64::new(0),
            states_checked: AtomicU64::new(0),
            transitions: AtomicU64::new(0),
            nontrivial: AtomicU64::new(0),
            known_hits: AtomicU64::new(0),
            observations: Mutex::new(HashSet::new()),
            counters: Mutex::new(Default::default()),
            samples: Mutex::new(Vec::new()),
            violation: Mutex::new(None),
            known_seen: Mutex::new(Default::default()),
            stop: AtomicBool::new(false),
        }
    }
}

pub struct SpaceModel<S: Space> {
    pub space: Arc<S>,
    pub stats: Arc<Stats>,
    pub known: Arc<KnownFindings>,
    pub property: String,
}

impl<S: Space> SpaceModel<S> {
    fn eval(&self, s: &S::State) -> bool {
        if self.stats.stop.load(Ordering::Relaxed) {
            return true;
        }
        let r = catch(|| self.space.check(s));
        let mut out = match r {
            Ok(o) => o,
            Err(p) => {
                // a panic that escaped the check's own catch: the subject panicked where the
                // check did not expect it, or the oracle itself is broken -- both are reported
                let mut o = Outcome::new();
                o.evaluations = 1;
                o.fail(Failure::panic("uncaught", &p));
                o
            }
        };
        let st = &self.stats;
        st.evaluations.fetch_add(out.evaluations, Ordering::Relaxed);
        let n = st.states_checked.fetch_add(1, Ordering::Relaxed);
        if out.nontrivial {
            st.nontrivial.fetch_add(1, Ordering::Relaxed);
        }
        {
            let mut obs = st.observations.lock().unwrap();
            if obs.len() < 2_000_000 {
                obs.insert(out.observation);
            }
        }
        if !out.counters.is_empty() {
            let mut c = st.counters.lock().unwrap();
            for (k, v) in out.counters.drain(..) {
                *c.entry(k).or_insert(0) += v;
            }
        }
        // keep a few samples: the first ones, plus a sparse selection of non-trivial ones
        if n < 2 || (out.nontrivial && (n % 9973 == 7 || n < 64 && n % 16 == 3)) {
            let mut sm = st.samples.lock().unwrap();
            if sm.len() < 12 {
                sm.push(self.space.describe(s));
            }
        }
        if out.failures.is_empty() {
            return true;
        }
        let mut unknown = Vec::new();
        for f in out.failures.drain(..) {
            match self.known.matches(&self.property, &f) {
                Some(id) => {
                    st.known_hits.fetch_add(1, Ordering::Relaxed);
                    let mut ks = st.known_seen.lock().unwrap();
                    let e = ks
                        .entry(id)
                        .or_insert_with(|| (0, json!({"state": self.space.describe(s), "failure": f.to_json()})));
                    e.0 += 1;
                }
                None => unknown.push(f),
            }
        }
        if unknown.is_empty() {
            return true;
        }
        if std::env::var("VERIF_COLLECT").is_ok() {
            // triage mode: keep exploring, print a bounded number of examples per failure kind
            let mut c = st.counters.lock().unwrap();
            for f in &unknown {
                let k: &'static str = Box::leak(format!("collect:{}", f.kind).into_boxed_str());
                let n = c.entry(k).or_insert(0);
                *n += 1;
                if *n <= 12 {
                    eprintln!("COLLECT {} {}", f.kind, f.detail);
                }
            }
            return true;
        }
        let mut v = st.violation.lock().unwrap();
        if v.is_none() {
            *v = Some((self.space.describe(s), unknown));
        }
        st.stop.store(true, Ordering::Relaxed);
        false
    }
}

impl<S: Space> Model for SpaceModel<S> {
    type State = S::State;
    type Action = S::State;

    fn init_states(&self) -> Vec<Self::State> {
        self.space.init()
    }

    fn actions(&self, state: &Self::State, actions: &mut Vec<Self::Action>) {
        if self.stats.stop.load(Ordering::Relaxed) {
            return;
        }
        let before = actions.len();
        self.space.next(state, actions);
        self.stats
            .transitions
            .fetch_add((actions.len() - before) as u64, Ordering::Relaxed);
    }

    fn next_state(&self, _last: &Self::State, action: Self::Action) -> Option<Self::State> {
        Some(action)
    }

    fn properties(&self) -> Vec<Property<Self>> {
        vec![Property::<Self>::always("oracle", |m, s| m.eval(s))]
    }
}

pub struct RunResult {
    pub space: String,
    pub unique_states: u64,
    pub generated_states: u64,
    pub max_depth: u64,
    pub states_checked: u64,
    pub evaluations: u64,
    pub transitions: u64,
    pub nontrivial: u64,
    pub distinct_observations: u64,
    pub counters: std::collections::BTreeMap<&'static str, u64>,
    pub samples: Vec<Value>,
    pub violation: Option<(Value, Vec<Failure>)>,
    pub known_seen: std::collections::BTreeMap<String, (u64, Value)>,
    pub timed_out: bool,
    pub wall_s: f64,
}

#[derive(Clone, Copy)]
pub enum Strategy {
    Bfs,
    Dfs,
}

pub fn threads() -> usize {
    std::env::var("VERIF_THREADS")
        .ok()
        .and_then(|s| s.parse().ok())
        .unwrap_or_else(|| std::thread::available_parallelism().map(|n| n.get()).unwrap_or(8).min(16))
}

/// Explore `space` completely (or until `cap`), evaluating the oracle on every state.
pub fn run<S: Space>(
    space: S,
    property: &str,
    known: Arc<KnownFindings>,
    strategy: Strategy,
    cap: Option<Duration>,
) -> RunResult {
    let t0 = Instant::now();
    let stats = Arc::new(Stats::default());
    let name = space.name();
    let model = SpaceModel {
        space: Arc::new(space),
        stats: stats.clone(),
        known,
        property: property.to_string(),
    };
    let mut b = model.checker().threads(threads());
    if let Some(c) = cap {
        b = b.timeout(c);
    }
    // memory guard: the search frontier holds real states; when the resident set passes the limit
    // the space stops producing successors (the run ends as "capped", never as a verdict)
    let mem_stop = Arc::new(std::sync::atomic::AtomicBool::new(false));
    let finished = Arc::new(std::sync::atomic::AtomicBool::new(false));
    let watchdog = {
        let (stats, mem_stop, finished) = (stats.clone(), mem_stop.clone(), finished.clone());
        let limit_kb: u64 = std::env::var("VERIF_MAX_RSS_GB").ok().and_then(|v| v.parse::<u64>().ok()).unwrap_or(36) * 1024 * 1024;
        std::thread::spawn(move || {
            while !finished.load(Ordering::Relaxed) {
                if let Ok(s) = std::fs::read_to_string("/proc/self/status") {
                    if let Some(l) = s.lines().find(|l| l.starts_with("VmRSS:")) {
                        let kb: u64 = l.split_whitespace().nth(1).and_then(|x| x.parse().ok()).unwrap_or(0);
                        if kb > limit_kb {
                            mem_stop.store(true, Ordering::Relaxed);
                            stats.stop.store(true, Ordering::Relaxed);
                            return;
                        }
                    }
                }
                std::thread::sleep(Duration::from_millis(500));
            }
        })
    };
    let (unique, generated, depth, done) = match strategy {
        Strategy::Bfs => {
            let c = b.spawn_bfs().join();
            (c.unique_state_count(), c.state_count(), c.max_depth(), c.is_done())
        }
        Strategy::Dfs => {
            let c = b.spawn_dfs().join();
            (c.unique_state_count(), c.state_count(), c.max_depth(), c.is_done())
        }
    };
    finished.store(true, Ordering::Relaxed);
    let _ = watchdog.join();
    let violation = stats.violation.lock().unwrap().take();
    let timed_out = violation.is_none() && (!done || mem_stop.load(Ordering::Relaxed) || cap.map(|c| t0.elapsed() >= c).unwrap_or(false));
    let r = RunResult {
        space: name,
        unique_states: unique as u64,
        generated_states: generated as u64,
        max_depth: depth as u64,
        states_checked: stats.states_checked.load(Ordering::Relaxed),
        evaluations: stats.evaluations.load(Ordering::Relaxed),
        transitions: stats.transitions.load(Ordering::Relaxed),
        nontrivial: stats.nontrivial.load(Ordering::Relaxed),
        distinct_observations: stats.observations.lock().unwrap().len() as u64,
        counters: stats.counters.lock().unwrap().clone(),
        samples: stats.samples.lock().unwrap().clone(),
        violation,
        known_seen: stats.known_seen.lock().unwrap().clone(),
        timed_out,
        wall_s: t0.elapsed().as_secs_f64(),
    };
    r
}

// ---------------------------------------------------------------------------------------------
// String-shaped spaces: the prefix tree of Σ* with optional deviation bound.

/// One symbol of an alphabet: a piece of text, `special` marks symbols that count as deviations
#[derive(Clone, Debug)]
pub struct Sym {
    pub text: String,
    pub special: bool,
}

pub fn syms(plain: &[&str], special: &[&str]) -> Vec<Sym> {
    let mut v: Vec<Sym> = plain
        .iter()
        .map(|s| Sym { text: s.to_string(), special: false })
        .collect();
    v.extend(special.iter().map(|s| Sym { text: s.to_string(), special: true }));
    v
}

/// Bounds of a string tree: full product up to `full_len`; beyond that, up to `ext_len`, only
/// strings with at most `max_special` special symbols.
#[derive(Clone, Debug)]
pub struct TreeBounds {
    pub full_len: usize,
    pub ext_len: usize,
    pub max_special: usize,
}

impl TreeBounds {
    pub fn full(l: usize) -> Self {
        TreeBounds { full_len: l, ext_len: l, max_special: usize::MAX }
    }
    pub fn to_json(&self) -> Value {
        json!({"full_product_len": self.full_len, "extended_len": self.ext_len,
               "max_special_beyond_full": if self.max_special == usize::MAX { json!(null) } else { json!(self.max_special) }})
    }
}

pub fn tree_next(alpha: &[Sym], b: &TreeBounds, s: &Vec<u8>, out: &mut Vec<Vec<u8>>) {
    let len = s.len();
    if len >= b.ext_len.max(b.full_len) {
        return;
    }
    let specials = s.iter().filter(|&&i| alpha[i as usize].special).count();
    for (i, sym) in alpha.iter().enumerate() {
        let nlen = len + 1;
        let nspec = specials + sym.special as usize;
        // a string is a member if it is within the full product or within the deviation bound;
        // prefixes of members are members (both conditions are prefix-closed)
        if nlen <= b.full_len || nspec <= b.max_special {
            let mut n = Vec::with_capacity(nlen);
            n.extend_from_slice(s);
            n.push(i as u8);
            out.push(n);
        }
    }
}

pub fn tree_text(alpha: &[Sym], s: &[u8]) -> String {
    let mut t = String::new();
    for &i in s {
        t.push_str(&alpha[i as usize].text);
    }
    t
}

pub fn hash_of<T: Hash>(t: &T) -> u64 {
    let mut h = DefaultHasher::new();
    t.hash(&mut h);
    h.finish()
}

// ---------------------------------------------------------------------------------------------
// Type-erased jobs and the driver shared by all checks

pub struct Job<S: Space> {
    pub space: S,
    pub strategy: Strategy,
    pub cap: Option<Duration>,
    pub bound: Value,
}

pub trait AnyJob {
    fn name(&self) -> String;
    fn explore(self: Box<Self>, rep: &mut crate::common::evidence::Report);
    fn replay(&self, state: &Value) -> Option<Outcome>;
}

impl<S: Space> AnyJob for Job<S> {
    fn name(&self) -> String {
        self.space.name()
    }
    fn explore(self: Box<Self>, rep: &mut crate::common::evidence::Report) {
        let j = *self;
        let r = run(j.space, &rep.property.clone(), rep.known.clone(), j.strategy, j.cap);
        rep.add(r, j.bound);
    }
    fn replay(&self, state: &Value) -> Option<Outcome> {
        let st = self.space.parse(state)?;
        Some(match catch(|| self.space.check(&st)) {
            Ok(o) => o,
            Err(p) => {
                let mut o = Outcome::new();
                o.fail(Failure::panic("uncaught", &p));
                o
            }
        })
    }
}

pub fn job<S: Space>(space: S, strategy: Strategy, cap_s: Option<u64>, bound: Value) -> Box<dyn AnyJob> {
    // The caps written at the call sites are sized for an idle 16-core machine (quick tier: a small
    // multiple of the measured time).  On a loaded machine the same exploration takes several times
    // longer; a cap is a guard against a runaway search, not a way to shorten coverage, so the quick
    // ones (<= 120 s) are stretched.  A cap that is hit is always reported (exhaustive=false).
    let stretch = |c: u64| if c <= 120 { c * 6 } else { c };
    Box::new(Job { space, strategy, cap: cap_s.map(|c| Duration::from_secs(stretch(c))), bound })
}

/// Run all jobs (stop at the first violating one) or replay one recorded state.
pub fn drive(mut rep: crate::common::evidence::Report, jobs: Vec<Box<dyn AnyJob>>, replay: Option<String>) -> i32 {
    if let Some(path) = replay {
        let txt = match std::fs::read_to_string(&path) {
            Ok(t) => t,
            Err(e) => {
                eprintln!("cannot read replay {}: {}", path, e);
                return 2;
            }
        };
        let v: Value = serde_json::from_str(&txt).expect("replay file is not JSON");
        let space = v["space"].as_str().unwrap_or("");
        for j in &jobs {
            if j.name() == space {
                return match j.replay(&v["state"]) {
                    None => {
                        eprintln!("cannot parse state of replay file");
                        2
                    }
                    Some(o) => {
                        let mut bad = 0;
                        for f in &o.failures {
                            match rep.known.matches(&rep.property, f) {
                                Some(id) => println!("KNOWN-FINDING: property={} {} [{}]", rep.property, rep.known.what(&id), id),
                                None => {
                                    bad += 1;
                                    println!("replay: {}: {}", f.kind, f.detail);
                                }
                            }
                        }
                        if bad > 0 {
                            println!("VIOLATION property={} replay={}", rep.property, path);
                            1
                        } else {
                            println!("replay: property held on the recorded state");
                            0
                        }
                    }
                };
            }
        }
        eprintln!("replay names unknown space {:?}", space);
        return 2;
    }
    let only = std::env::var("VERIF_ONLY").ok();
    for j in jobs {
        if let Some(o) = &only {
            if !j.name().contains(o.as_str()) {
                continue;
            }
        }
        j.explore(&mut rep);
        if rep.has_violation() {
            break;
        }
    }
    rep.finish()
}

// ---------------------------------------------------------------------------------------------
// Flat case lists (one-level tree): structured worlds / boundary families that are enumerated
// completely from a generated list.

pub struct CaseSpace<C: Send + Sync + 'static> {
    pub label: String,
    pub cases: Vec<C>,
    pub check_fn: Box<dyn Fn(&C) -> Outcome + Send + Sync>,
    pub describe_fn: Box<dyn Fn(&C) -> Value + Send + Sync>,
}

impl<C: Send + Sync + 'static> Space for CaseSpace<C> {
    type State = u32;
    fn name(&self) -> String {
        self.label.clone()
    }
    fn init(&self) -> Vec<u32> {
        vec![u32::MAX]
    }
    fn next(&self, s: &u32, out: &mut Vec<u32>) {
        if *s == u32::MAX {
            out.extend(0..self.cases.len() as u32);
        }
    }
    fn check(&self, s: &u32) -> Outcome {
        if *s == u32::MAX {
            return Outcome::new();
        }
        (self.check_fn)(&self.cases[*s as usize])
    }
    fn describe(&self, s: &u32) -> Value {
        if *s == u32::MAX {
            return json!({"case_index": null});
        }
        json!({"case_index": s, "case": (self.describe_fn)(&self.cases[*s as usize])})
    }
    fn parse(&self, v: &Value) -> Option<u32> {
        let i = v["case_index"].as_u64()? as u32;
        if (i as usize) < self.cases.len() {
            Some(i)
        } else {
            None
        }
    }
}
