//! Reference models for character classes (C17), class runs / word starts and out-of-vocabulary
//! candidates (C13).  Written from the definition-file syntax and the property statements
//! ("textbook" MeCab formulation), independent of the implementation's data structures.

use std::collections::{BTreeMap, BTreeSet};
use sudachi::dic::category_type::CategoryType;

#[derive(Clone, Debug)]
pub struct CatInfo {
    pub invoke: bool,
    pub group: bool,
    pub length: usize,
}

#[derive(Clone, Debug, Default)]
pub struct RefCharDef {
    /// category definitions: name -> (invoke, group, length), in file order
    pub cats: Vec<(String, CatInfo)>,
    /// range lines: inclusive code point range and class names
    pub lines: Vec<(u32, u32, Vec<String>)>,
}

pub fn class_bit(name: &str) -> Option<CategoryType> {
    Some(match name {
        "DEFAULT" => CategoryType::DEFAULT,
        "SPACE" => CategoryType::SPACE,
        "KANJI" => CategoryType::KANJI,
        "SYMBOL" => CategoryType::SYMBOL,
        "NUMERIC" => CategoryType::NUMERIC,
        "ALPHA" => CategoryType::ALPHA,
        "HIRAGANA" => CategoryType::HIRAGANA,
        "KATAKANA" => CategoryType::KATAKANA,
        "KANJINUMERIC" => CategoryType::KANJINUMERIC,
        "GREEK" => CategoryType::GREEK,
        "CYRILLIC" => CategoryType::CYRILLIC,
        "USER1" => CategoryType::USER1,
        "USER2" => CategoryType::USER2,
        "USER3" => CategoryType::USER3,
        "USER4" => CategoryType::USER4,
        "NOOOVBOW" => CategoryType::NOOOVBOW,
        "NOOOVBOW2" => CategoryType::NOOOVBOW2,
        "ALL" => CategoryType::ALL,
        _ => return None,
    })
}

impl RefCharDef {
    pub fn parse(text: &str) -> RefCharDef {
        let mut d = RefCharDef::default();
        for line in text.lines() {
            let line = match line.find('#') {
                Some(i) => &line[..i],
                None => line,
            };
            let line = line.trim();
            if line.is_empty() {
                continue;
            }
            let cols: Vec<&str> = line.split_whitespace().collect();
            if cols[0].starts_with("0x") {
                let mut it = cols[0].split("..");
                let lo = u32::from_str_radix(it.next().unwrap().trim_start_matches("0x"), 16).unwrap();
                let hi = match it.next() {
                    Some(h) => u32::from_str_radix(h.trim_start_matches("0x"), 16).unwrap(),
                    None => lo,
                };
                d.lines.push((lo, hi, cols[1..].iter().map(|s| s.to_string()).collect()));
            } else if cols.len() >= 4 {
                d.cats.push((
                    cols[0].to_string(),
                    CatInfo { invoke: cols[1] == "1", group: cols[2] == "1", length: cols[3].parse().unwrap_or(0) },
                ));
            }
        }
        d
    }

    /// union of the classes of all lines covering the code point; DEFAULT when none
    pub fn classes(&self, c: char) -> CategoryType {
        let cp = c as u32;
        let mut r = CategoryType::empty();
        for (lo, hi, names) in &self.lines {
            if *lo <= cp && cp <= *hi {
                for n in names {
                    if let Some(b) = class_bit(n) {
                        r |= b;
                    }
                }
            }
        }
        if r.is_empty() {
            CategoryType::DEFAULT
        } else {
            r
        }
    }

    pub fn info(&self, bit: CategoryType) -> Option<&CatInfo> {
        self.cats.iter().find(|(n, _)| class_bit(n) == Some(bit)).map(|(_, i)| i)
    }
}

/// one unknown-word definition
#[derive(Clone, Debug, PartialEq, Eq)]
pub struct UnkDef {
    pub class: String,
    pub left: i32,
    pub right: i32,
    pub cost: i32,
    pub pos: Vec<String>,
}

pub fn parse_unk(text: &str) -> Vec<UnkDef> {
    let mut v = Vec::new();
    for line in text.lines() {
        let line = line.trim();
        if line.is_empty() || line.starts_with('#') {
            continue;
        }
        let c: Vec<&str> = line.split(',').collect();
        if c.len() < 10 {
            continue;
        }
        v.push(UnkDef {
            class: c[0].to_string(),
            left: c[1].parse().unwrap_or(0),
            right: c[2].parse().unwrap_or(0),
            cost: c[3].parse().unwrap_or(0),
            pos: c[4..10].iter().map(|s| s.to_string()).collect(),
        });
    }
    v
}

/// Class runs by the greedy left-to-right partition from the start of the text:
/// returns for every character the number of characters from it to the end of its run.
pub fn run_lengths(classes: &[CategoryType]) -> Vec<usize> {
    let n = classes.len();
    let mut out = vec![0; n];
    let mut i = 0;
    while i < n {
        let mut common = classes[i];
        let mut j = i + 1;
        while j < n {
            let c = common & classes[j];
            if c.is_empty() {
                break;
            }
            common = c;
            j += 1;
        }
        for p in i..j {
            out[p] = j - p;
        }
        i = j;
    }
    out
}

/// which characters may start a word
pub fn word_starts(classes: &[CategoryType]) -> Vec<bool> {
    let non_starting = CategoryType::ALPHA | CategoryType::GREEK | CategoryType::CYRILLIC;
    let mut out = Vec::with_capacity(classes.len());
    let mut forbid_next = false;
    let mut prev = CategoryType::empty();
    for &c in classes {
        let ok = if forbid_next {
            forbid_next = false;
            false
        } else if c.intersects(CategoryType::NOOOVBOW2) {
            forbid_next = true;
            false
        } else if c.intersects(CategoryType::NOOOVBOW) {
            false
        } else if c.intersects(non_starting) {
            !c.intersects(prev)
        } else {
            true
        };
        out.push(ok);
        prev = c;
    }
    out
}

/// A candidate node as a comparable tuple
#[derive(Clone, Debug, PartialEq, Eq, PartialOrd, Ord, Hash)]
pub struct Cand {
    pub begin: usize,
    pub end: usize,
    pub left: i32,
    pub right: i32,
    pub cost: i32,
    pub pos: Vec<String>,
}

/// MeCab-style candidates at `offset`, given the lengths (in characters) created so far
pub fn mecab_candidates(
    def: &RefCharDef,
    unk: &[UnkDef],
    classes: &[CategoryType],
    runs: &[usize],
    offset: usize,
    have_words: bool,
) -> Vec<Cand> {
    let mut out = Vec::new();
    let run = runs[offset];
    if run == 0 {
        return out;
    }
    let n = classes.len();
    // iterate the classes of the character (every single bit)
    for bit in classes[offset].iter() {
        let name_info = def.cats.iter().find(|(nm, _)| class_bit(nm) == Some(bit));
        let (name, info) = match name_info {
            Some((n, i)) => (n, i),
            None => continue,
        };
        if !info.invoke && have_words {
            continue;
        }
        let defs: Vec<&UnkDef> = unk.iter().filter(|u| &u.class == name).collect();
        if defs.is_empty() {
            continue;
        }
        let mut limit = run;
        if info.group {
            for d in &defs {
                out.push(Cand { begin: offset, end: offset + run, left: d.left, right: d.right, cost: d.cost, pos: d.pos.clone() });
            }
            limit = run - 1;
        }
        for len in 1..=info.length {
            let sub = len.min(n - offset);
            if sub > limit {
                break;
            }
            for d in &defs {
                out.push(Cand { begin: offset, end: offset + sub, left: d.left, right: d.right, cost: d.cost, pos: d.pos.clone() });
            }
        }
    }
    out
}

pub fn to_set(v: Vec<Cand>) -> BTreeSet<Cand> {
    v.into_iter().collect()
}

pub fn lengths_of(set: &BTreeSet<Cand>) -> BTreeMap<usize, usize> {
    let mut m = BTreeMap::new();
    for c in set {
        *m.entry(c.end - c.begin).or_insert(0) += 1;
    }
    m
}
