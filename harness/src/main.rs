mod checks;
mod common;

use common::evidence::Tier;

fn usage() -> ! {
    eprintln!("usage: vcheck <property-id> [--tier quick|thorough] [--replay <path>]");
    std::process::exit(2)
}

fn main() {
    let args: Vec<String> = std::env::args().collect();
    if args.len() < 2 {
        usage();
    }
    if args[1] == "--setup" {
        std::process::exit(checks::setup::main());
    }
    if args[1] == "c18-free" {
        common::panics::install_hook();
        let code = checks::c18::free_run();
        common::worlds::cleanup_work_dir();
        std::process::exit(code);
    }
    let id = args[1].to_uppercase();
    let mut tier = match std::env::var("VERIF_TIER").as_deref() {
        Ok("thorough") => Tier::Thorough,
        _ => Tier::Quick,
    };
    let mut replay: Option<String> = None;
    let mut i = 2;
    while i < args.len() {
        match args[i].as_str() {
            "--tier" => {
                i += 1;
                tier = match args.get(i).map(|s| s.as_str()) {
                    Some("quick") => Tier::Quick,
                    Some("thorough") => Tier::Thorough,
                    _ => usage(),
                };
            }
            "--replay" => {
                i += 1;
                replay = Some(args.get(i).cloned().unwrap_or_else(|| usage()));
            }
            _ => usage(),
        }
        i += 1;
    }
    common::panics::install_hook();
    let code = match common::panics::catch(|| run(&id, tier, replay)) {
        Ok(c) => c,
        Err(p) => {
            eprintln!("machinery failure: harness panicked at {}: {}", p.location, p.message);
            2
        }
    };
    common::worlds::cleanup_work_dir();
    std::process::exit(code);
}

fn run(id: &str, tier: Tier, replay: Option<String>) -> i32 {
    match id {
        "C01" => checks::c01::main(tier, replay),
        "C02" => checks::c02::main(tier, replay),
        "C03" => checks::c03::main(tier, replay),
        "C04" => checks::c04::main(tier, replay),
        "C05" => checks::c05::main(tier, replay),
        "C06" => checks::c06::main(tier, replay),
        "C07" => checks::c07::main(tier, replay),
        "C08" => checks::c08::main(tier, replay),
        "C09" => checks::c09::main(tier, replay),
        "C10" => checks::c10::main(tier, replay),
        "C11" => checks::c11::main(tier, replay),
        "C12" => checks::c12::main(tier, replay),
        "C13" => checks::c13::main(tier, replay),
        "C14" => checks::c14::main(tier, replay),
        "C15" => checks::c15::main(tier, replay),
        "C16" => checks::c16::main(tier, replay),
        "C17" => checks::c17::main(tier, replay),
        "C18" => checks::c18::main(tier, replay),
        "C19" => checks::c19::main(tier, replay),
        "C20" => checks::c20::main(tier, replay),
        _ => {
            eprintln!("unknown property {}", id);
            2
        }
    }
}
