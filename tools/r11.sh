#!/bin/bash
# r2.sh <PROP> [extra checks]: confirm (background) and try both round-2 seeds of a property
P=$1; shift
(for n in 1 2; do /verif/tools/confirm_seed.sh $P $n /tmp/w11-; done > /tmp/confirm_r11_$P.log 2>&1 &)
for n in 1 2; do echo "#### $P r11 seed$n"; /verif/tools/try_seed.sh /tmp/w11-$P/SEED/seed$n/patch.diff quick $P "$@" | cut -c1-450; done
