#!/bin/bash
# run_private.sh <name> <file with one patch path per line> <check ids...>
# Applies each patch to a private worktree of /repo (/tmp/<name>/repo), runs the listed quick checks from
# a private copy of /verif (/tmp/<name>/verif) against it, and appends "patch \t check \t exit \t first kind"
# to /tmp/<name>/results.tsv.  Nothing here touches /repo's working tree or /verif's evidence.
NAME=$1; LIST=$2; shift 2; CHECKS="$@"
D=/tmp/$NAME; mkdir -p $D
export VERIF_REPO=$D/repo
if [ ! -d $D/repo ]; then git -C /repo worktree add -q --detach $D/repo HEAD || exit 2; fi
git -C $D/repo checkout -q --detach $(git -C /repo rev-parse HEAD); git -C $D/repo checkout -q -- .
rsync -a --delete --exclude target --exclude target-repo --exclude target-tsan --exclude .work --exclude .git /verif/ $D/verif/
sed -i "s#path = \"/repo/sudachi\"#path = \"$D/repo/sudachi\"#" $D/verif/harness/Cargo.toml
OUT=$D/results.tsv; : > $OUT
while read -r P; do
  [ -z "$P" ] && continue
  git -C $D/repo checkout -q -- .
  git -C $D/repo apply "$P" || { echo -e "$P\tAPPLY-FAILED" >> $OUT; continue; }
  LIST_C="$CHECKS"
  # OWN = the check of the property the patch directory is named after (.../C07-s3/patch.diff -> C07)
  [ "$CHECKS" = "OWN" ] && LIST_C=$(basename $(dirname "$P") | cut -c1-3)
  # "OWN+ C01 C02": the own check plus the listed ones
  case "$CHECKS" in "OWN+ "*) own=$(basename $(dirname "$P") | cut -c1-3); LIST_C="$own"; for x in ${CHECKS#OWN+ }; do [ "$x" != "$own" ] && LIST_C="$LIST_C $x"; done;; esac
  for c in $LIST_C; do
    timeout 900 $D/verif/check $c --tier quick > $D/last.log 2>&1; rc=$?
    kind=$(grep -m1 -E "^   [a-z0-9-]+:" $D/last.log | sed 's/^ *//' | cut -c1-300)
    [ $rc -eq 2 ] && kind=$(grep -m1 -E "machinery|error(\[|:)|panicked" $D/last.log | cut -c1-300)
    echo -e "$P\t$c\t$rc\t$kind" >> $OUT
  done
done < $LIST
git -C $D/repo checkout -q -- .
echo DONE >> $OUT
