#!/bin/bash
# reconfirm_all.sh [seed names...]: re-confirm kept seeds against /repo HEAD in one scratch worktree
# (/tmp/rc, removed at the end): the patch applies, the suite passes with it, the demo fails with it
# and passes without.  Result lines go to /verif/seeded/RECONFIRM.txt
WT=/tmp/rc; OUT=/verif/seeded/RECONFIRM.txt
export CARGO_NET_OFFLINE=true CARGO_TARGET_DIR=$WT/target
git -C /repo worktree remove --force $WT 2>/dev/null; git -C /repo worktree prune
git -C /repo worktree add -q --detach $WT HEAD || exit 2
HEAD=$(git -C /repo rev-parse --short HEAD)
SEEDS="$@"; [ -z "$SEEDS" ] && SEEDS=$(ls /verif/seeded | grep -E '^C[0-9]+-s[0-9]+$')
[ $# -eq 0 ] && echo "# re-confirmation of the kept seeds against /repo $HEAD ($(date -u +%F))" > $OUT
cd $WT
for s in $SEEDS; do
  S=/verif/seeded/$s
  git checkout -q -- . ; rm -f sudachi/tests/zz_seed_demo.rs
  if ! git apply --check $S/patch.diff 2>/dev/null; then echo "$s NOT-CONFIRMED patch does not apply to $HEAD" >> $OUT; continue; fi
  git apply $S/patch.diff
  cargo test --workspace --no-fail-fast --offline > /tmp/rc-suite.txt 2>&1
  PASS=$(grep -E "^test result" /tmp/rc-suite.txt | awk '{p+=$4; f+=$6} END {print p" "f}')
  DEMO=$(ls $S/*.rs 2>/dev/null | head -1)
  if [ -n "$DEMO" ]; then
    cp $DEMO sudachi/tests/zz_seed_demo.rs
    FEAT=""; grep -q "sudachi::verif" $DEMO && FEAT="--features verif"
    cargo test -p sudachi --offline $FEAT --test zz_seed_demo -- --test-threads=1 > /tmp/rc-with.txt 2>&1; RW=$?
    git apply -R $S/patch.diff
    cargo test -p sudachi --offline $FEAT --test zz_seed_demo -- --test-threads=1 > /tmp/rc-without.txt 2>&1; RO=$?
    rm -f sudachi/tests/zz_seed_demo.rs
  else
    RW=nodemo; RO=nodemo; git apply -R $S/patch.diff
  fi
  F=$(echo $PASS | awk '{print $2}')
  if [ "$F" = "0" ] && [ "$RW" != "0" ] && [ "$RO" = "0" ]; then V=CONFIRMED; else V=NOT-CONFIRMED; fi
  echo "$s $V suite(passed failed)=$PASS demo_exit_with=$RW without=$RO" >> $OUT
done
cd /; git -C /repo worktree remove --force $WT; git -C /repo worktree prune; rm -f /tmp/rc-*.txt
echo DONE >> $OUT
