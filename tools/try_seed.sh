#!/bin/bash
# try_seed.sh <patch.diff> <tier> <check id>... : apply a seeded change to /repo, run the checks, undo it.
PATCH=$1; TIER=$2; shift 2
cd /repo && git status --short | grep -v '^??' && { echo "/repo is dirty"; exit 2; }
git -C /repo apply "$PATCH" || { echo "patch does not apply"; exit 2; }
for id in "$@"; do
  OUT=$(cd /verif && VERIF_ROOT=/verif ./check $id --tier $TIER 2>&1); RC=$?
  echo "== $id exit=$RC"; echo "$OUT" | grep -E "VIOLATION|violation in|^   [a-z-]+:|machinery|KNOWN" | head -6 | cut -c1-400
done
git -C /repo checkout -- .
