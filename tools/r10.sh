#!/bin/bash
# r2.sh <PROP> [extra checks]: confirm (background) and try both round-2 seeds of a property
P=$1; shift
(for n in 1 2; do /verif/tools/confirm_seed.sh $P $n /tmp/w10-; done > /tmp/confirm_r10_$P.log 2>&1 &)
for n in 1 2; do echo "#### $P r10 seed$n"; /verif/tools/try_seed.sh /tmp/w10-$P/SEED/seed$n/patch.diff quick $P "$@" | cut -c1-450; done
