#!/usr/bin/env python3
"""keep_seed.py <PROP> <N>: copy a confirmed seeded change from /tmp/wt-<PROP>/SEED/seed<N> to /verif/seeded/<PROP>-s<N>/"""
import json, os, shutil, sys, glob
prop, n = sys.argv[1], sys.argv[2]
prefix = sys.argv[3] if len(sys.argv) > 3 else "/tmp/wt-"
offset = int(sys.argv[4]) if len(sys.argv) > 4 else 0
src = f"{prefix}{prop}/SEED/seed{n}"
dst = f"/verif/seeded/{prop}-s{int(n) + offset}"
log = open(os.path.join(src, "confirm.log")).read()
assert log.strip().endswith("CONFIRMED") and "NOT-CONFIRMED" not in log, log
os.makedirs(dst, exist_ok=True)
shutil.copy(os.path.join(src, "patch.diff"), dst)
demos = glob.glob(os.path.join(src, "*.rs"))
for d in demos:
    shutil.copy(d, os.path.join(dst, "demo.rs"))
meta = json.load(open(os.path.join(src, "meta.json")))
out = {
    "property": prop,
    "summary": meta.get("summary"),
    "needs": meta.get("needs"),
    "files": meta.get("files"),
    "demonstration": "demo.rs: copy to sudachi/tests/zz_seed_demo.rs in a worktree of /repo and run `cargo test -p sudachi --offline --test zz_seed_demo`",
    "confirmed_by_me": {
        "how": "tools/confirm_seed.sh in the scratch worktree (removed afterwards): applied patch.diff, ran `cargo test --workspace --no-fail-fast --offline`, ran the demo with and without the patch",
        "log": log.strip().splitlines(),
    },
    "produced_by": "fresh sub-agent given only the property text and its own scratch worktree",
}
json.dump(out, open(os.path.join(dst, "meta.json"), "w"), indent=1, ensure_ascii=False)
print("kept", dst)
