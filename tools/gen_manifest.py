#!/usr/bin/env python3
"""Regenerates /verif/MANIFEST.json from the table below (kept in one place so it stays valid)."""
import json, os, sys
ROOT = os.path.dirname(os.path.dirname(os.path.abspath(__file__)))
HOOK_COMMITS = ["7678754", "c790ccf"]

TRUSTED = ("Trusted base: Unicode tables of the unicode-normalization crate and std, the regex / fancy-regex / aho-corasick / "
           "yada / csv / nom crates, rustc; bounds as reported in the evidence file.")

CHECKS = {
 "C01": dict(
   technique="explicit-state model checking (stateright, exhaustive bounded enumeration of inputs on the real tokenizer, invariant on every state)",
   text="Every string over a trigger alphabet (one symbol per shortcut in the normalisation / lattice / plugin code) up to the stated length, in five fabricated worlds and modes A/B/C, is tokenized by the real code and the partition / lossless-surface invariant is evaluated on every state, including on-demand splits. Exhaustive within the bound; says nothing beyond the alphabet and length bound. A further world puts two input-text plugins against each other (the first moves bytes while keeping the total length, the second edits in between). Worlds include numerals whose headword and key differ in length and input plugins that erase a whole non-empty text.",
   ref="DESIGN.md §3 C01"),
 "C02": dict(
   technique="explicit-state model checking (stateright) of the real Viterbi search: exhaustive bounded enumeration of texts x cost worlds, reference = brute-force enumeration of all lattice paths plus independent DP over the observed lattice",
   text="For every text over a 3-symbol alphabet (4 in the world of Latin words) up to the bound, in every cost world (baseline plus deviations to the i16 limits, ties, negative costs, layered user dictionaries, three OOV provider types), the lattice of the real tokenizer is read through the verif hook; every node sequence tiling the text is enumerated and the returned path must be a lattice path, reproduce total_cost() from word parameters and matrix, and reach the minimum; the dictionary node set is cross-checked against a naive CSV scan, on a reused tokenizer.",
   ref="DESIGN.md §3 C02"),
 "C03": dict(
   technique="explicit-state model checking (stateright): exhaustive enumeration of all Unicode scalars in contexts, bounded strings and generated length-boundary families on the real tokenizer built with debug assertions and overflow checks",
   text="Every Unicode scalar value (alone and in contexts), every string of the C01 trees, complete generated families around the 49,149 / 65,535 byte limits and cost extremes are tokenized by the real code with assertions on; panics, wrong Ok/Err verdicts (predicted by arithmetic) and unsafe accessors are violations. Exhaustive within those families; allocation failure and stack exhaustion are out of reach.",
   ref="DESIGN.md §3 C03"),
 "C09": dict(
   technique="explicit-state model checking (stateright): exhaustive bounded enumeration of texts on the real tokenizer in modes C/A/B plus on-demand splits, reference = split units declared in the CSV",
   text="Every string within the bound, in worlds with system->system, user->system and user->user split references (numeric, U-prefixed, inline; three user dictionaries), units of 1/3/4-byte characters, words reached only through normalisation, headwords longer than keys and units that do not add up to the key, is tokenized in C, A and B; C boundaries must survive, unsplit tokens must be identical, the sub-tokens of a split token must be exactly the declared units tiling the parent, and split_into must equal direct tokenisation (false for words declaring none).",
   ref="DESIGN.md §3 C09"),
 "C10": dict(
   technique="explicit-state model checking (stateright BFS, no de-duplication) over operation histories on one real tokenizer and reused result lists, differential against fresh objects",
   text="Every sequence of up to `depth` operations out of 23 (set_mode, set_subset, analyse+collect of long/short/empty/over-long/normalisation-overflow/numeral/split texts, analyse without collect, collect alone, on-demand split into a reused list, lookup on the reused list, clear) is applied to one StatefulTokenizer and reused MorphemeLists; afterwards three probes analysed on the used objects must equal a fresh tokenizer with the same mode and field request in boundaries, word identities and every requested field; a failed analysis must leave the tokenizer usable.",
   ref="DESIGN.md §3 C10"),
 "C11": dict(
   technique="explicit-state model checking (stateright): all 1024 field subsets x every word, and x every bounded text x modes x call orders, on the real lexicon reader and tokenizer, differential against the all-fields result",
   text="Every word of a two-user-dictionary world x all 1024 subsets through LexiconSet::get_word_info_subset and through a tokenizer after set_subset: every requested field read through its public accessor equals the all-fields value (strings across the one/two-byte length prefix included). Every text within the bound x all 1024 subsets x modes A/B/C x four call orders of set_mode / set_subset / reused result list: surfaces partition the input; tokens equal the full analysis when no path-rewrite plugin is configured or the subset covers surface, POS and normalised form.",
   ref="DESIGN.md §3 C11"),
 "C12": dict(
   technique="explicit-state model checking (stateright BFS) over configuration decisions (plugin POS registrations x build route x one POS pattern per user dictionary, all orders), every state built with the real compiler/loader and compared with the declared CSV content",
   text="Every stack of up to 3 (thorough 4) user dictionaries with every combination of POS patterns (system POS only, own new POS, POS shared between dictionaries, POS equal to a plugin-registered one), with OOV plugins registering 0/1/2 POS, built against the bare system dictionary or against the loaded dictionary with plugins as `sudachi ubuild` does, plus stacks of 14 and 15: every user word must report its declared POS strings and split references (U-prefixed and inline) resolved into its own or the system dictionary, morphemes must report the dictionary number of their source (-1 for OOV), system words must be unaffected, a shared key must be found once per dictionary, the 15th dictionary must be rejected. One user-dictionary builder is also driven through every order of good, half-rejected and system-POS reads; units of user words are checked in modes A/B with only surface and POS loaded.",
   ref="DESIGN.md §3 C12"),
 "C13": dict(
   technique="explicit-state model checking (stateright): exhaustive bounded enumeration of texts x definition-flag worlds on the real lattice builder, reference = textbook MeCab candidate model with greedy left-to-right class runs",
   text="For every string up to the bound over an alphabet with multi-class characters, combining marks (ALL NOOOVBOW), ZWJ (NOOOVBOW2), emoji modifiers and small kana, in worlds varying invoke/group/length of one class at a time and in six provider orders (MeCab, simple, regex strict/relaxed), the set of OOV nodes at every reachable lattice position, the class runs, the word-start flags and the fields of OOV morphemes are compared with the reference; runs of 62..130 characters cover the created-words bitset.",
   ref="DESIGN.md §3 C13"),
 "C04": dict(
   technique="explicit-state model checking (stateright) over lexicons under construction: every entry sequence up to the bound is compiled by the real builder and every byte offset of every probe text is looked up, reference = naive scan of the rows",
   text="Every sequence of up to max_entries lexicon entries (keys over 1/3/4-byte characters that are prefixes of each other, indexed or not, spread over a system and two user dictionaries) is compiled and loaded with the real code; LexiconSet::lookup at every byte offset (also inside characters) of every text up to length 3 and exact-surface lookup are compared as multisets with a naive scan; structured lexicons cover 127/128 homographs, 14k+ keys (word-id table offsets beyond 255 and 65535), 15/16 layers and keys up to 255 characters.",
   ref="DESIGN.md §3 C04"),
 "C05": dict(
   technique="explicit-state model checking (stateright) over sets of field deviations of a baseline lexicon/matrix: each accepted input is compiled twice, loaded at two alignments and read back field by field against the declaration",
   text="Baseline, every single deviation and every pair of deviations on different fields (string lengths around 127/128 UTF-16 units with BMP and astral characters, escapes, forms equal/different, dictionary-form and split references numeric / inline / U-prefixed, 127-item arrays, id and cost limits, matrices 1x1, 2x3, 3x2, 10x10) for system and user dictionaries: compiled on two threads with the same timestamp (byte-identical), loaded at buffer alignment offsets 0 and 1, every field of every entry and every matrix cell read back through the public readers. The lexicon is also handed to one builder in several read_lexicon calls at every cut, with resolve() calls in between that may fail, and read back the same way.",
   ref="DESIGN.md §3 C05"),
 "C14": dict(
   technique="explicit-state model checking (stateright): exhaustive bounded enumeration of texts, differential between the same world with and without path-rewrite plugins under six plugin settings",
   text="Every string within the bound over a numeral/katakana alphabet is tokenized (modes C and A) with the plugin-free world and with enableNormalize x minLength 1..3: boundaries with plugins must be a subset; every merged token must cover exactly the union of its parts, concatenate their dictionary-side surfaces, carry the prescribed part of speech and the last part's cumulative cost; every other token must be identical (a single numeral whose normalised form is rewritten counts as a merge of one).",
   ref="DESIGN.md §3 C14"),
 "C15": dict(
   technique="explicit-state model checking (stateright): exhaustive bounded enumeration of strings over the numeral alphabet plus a generated value grid, reference = strict well-formed recogniser and classical evaluator in exact decimal arithmetic",
   text="Every string within the bound over {0 1 2 5 〇 一 三 十 百 千 万 億 兆 , .} alone and embedded in text, with and without the plugin: every well-formed numeral must become exactly one token with the expected rendering; every joined token must have well-formed separators and a normalised form numerically equal to the classical value of its surface. All renderings (Arabic, kanji digits, comma groups, fractions, unit and coefficient notation) of d*10^k+e*10^j up to 10^40. Numerals joined from several tokens (also from multi-character numeral words that declare units) must be the same single token in modes A and B.",
   ref="DESIGN.md §3 C15"),
 "C16": dict(
   technique="explicit-state model checking (stateright): exhaustive bounded enumeration of texts x window limits x with/without dictionary checker on the real sentence splitter, invariant + converse oracle",
   text="Every text within the bound over an alphabet of terminators, brackets, quoting particles, digits/letters, <br>, ellipsis dots, commas, dictionary words containing a terminator and an astral character, split with window limits {1,2,3,5,4096} with and without the dictionary-based non-break checker (the lexicon lists the terminator itself): sentences partition the text and equal their slices, iteration terminates, every non-last sentence ends with terminator+tail, bracket level is 0 at each break, no break inside or at the end of a multi-character dictionary word, and every unvetoed terminator inside the window ends a sentence. Every text is also split by a splitter and in a text buffer that handled another text just before.",
   ref="DESIGN.md §3 C16"),
 "C17": dict(
   technique="explicit-state model checking (stateright) over definition files built line by line: every file up to the bound is loaded by the real parser and queried on every probe code point, reference = naive union of covering lines; plus all scalars on the shipped files",
   text="Every sequence (all orders, duplicates) of up to 3-4 range lines from a menu of ranges x class sets over a small domain touching 0, and around the surrogate gap and the top of the code space, is loaded with the real CharacterCategory reader; every probe code point (all range ends and neighbours) must report exactly the union of the covering lines or DEFAULT; the three char.def files shipped in the repository are checked on all 1,112,064 scalar values. A further menu lays ALL, NOOOVBOW and NOOOVBOW2 lines over each other in all orders.",
   ref="DESIGN.md §3 C17"),
 "C06": dict(
   level="fault_enumeration", engine="E1-stateright+E3-sink-faults",
   technique="fault enumeration: every failure offset (error and Ok(0), whole and single-byte writes) of the compiler's output sink; plus explicit-state enumeration (stateright) of byte strings, hostile field deviations, matrix texts and builder call orders with an independent validator of every accepted output",
   text="For the baseline system and user dictionaries a failing sink is injected at every byte offset (returning an error, returning Ok(0), accepting whole writes or one byte per call): compile must never report success, and short writes must not change the output. The input half enumerates every byte string up to the bound (all 256 byte values; a CSV-relevant alphabet) as system lexicon, user lexicon and matrix, a valid row with every single/pair of hostile field values and arities, 41 matrix texts and every builder call order up to length 5 (thorough 6): no panic, and whenever success is reported an independent validator loads the dictionary, checks every indexed entry's ids against the matrix as the lookup formula indexes it, every reference, and analyses probe texts. After every injected sink failure the same builder is asked again with a healthy sink (success must mean the dictionary), and keys with up to 700 indexed rows must either be rejected or be handed out completely.",
   ref="DESIGN.md §3 C06"),
 "C07": dict(
   technique="explicit-state model checking (stateright): all 1,112,064 scalars in context and all bounded strings through the real input-text plugins, compared state by state with a reference normaliser",
   text="The real DefaultInputText / ProlongedSoundMark / IgnoreYomigana plugins are run on every scalar value in several contexts (forcing both code paths) and on every string up to the bound over a trigger alphabet under four rewrite tables (prefix keys, multi-character keys and values, exempt characters), each table loaded twice; every result must equal the reference function written from the statement. The three plugins are also run as one pipeline in three orders against the composition of the three reference functions, and short texts are normalised on buffers that were used (and overflowed) before. Short texts are also normalised behind paddings of unrelated characters whose length lies around the powers of two (a rewrite must not depend on where in a long text its span lies).",
   ref="DESIGN.md §3 C07"),
 "C08": dict(
   technique="explicit-state model checking (stateright BFS with canonical-state de-duplication) over histories of edit batches on the real InputBuffer, plus bounded string enumeration on the real tokenizer",
   text="Every history of up to `depth` edit batches (all single replacements and all ordered non-overlapping pairs, by empty/shorter/longer/multi-byte strings) from every short original string is applied to the real InputBuffer; monotonicity, anchoring, boundary preservation, identity on unreplaced characters and the char/byte tables after build() are checked on every reachable state; begin_c/end_c are checked on the C01 string trees. Every edit history is replayed on a buffer that held another rewritten text before reset() and judged by the same invariants.",
   ref="DESIGN.md §3 C08"),
 "C18": dict(
   engine="E2-schedules",
   technique="stateless model checking of the real code under a controlled cooperative scheduler (CHESS-style iterative preemption bounding over sched_point hooks; real OS threads, every hand-off owned by the explorer)",
   text="Every interleaving at hook granularity of the drivers listed in the evidence (2 threads x 2 analyses, 3 threads x 1 analysis with sentence splitting, katakana runs, bracketed readings, first use of a dictionary, different field requests, characters with equal low 16 bits, a 1300-word dictionary) over one shared Arc<JapaneseDictionary> that is newly loaded for every execution (all three OOV provider types, both path-rewrite plugins, input plugins, two user dictionaries) with at most 0, 1, 2 preemptions is executed on the real code: each thread's morphemes must equal its single-threaded result, the dictionary fingerprint must not change, no thread may panic or block outside the scheduler; the first schedules are replayed twice to show the harness owns the nondeterminism. Send+Sync of the dictionary is asserted at compile time. One driver's analyses end in an error value (regex provider in debugging mode): every thread must get the error its single-threaded run gets.",
   note="Scheduling points exist only at the hook sites; races inside one section between two hooks, memory-ordering effects and the internals of regex / lazy_static / std::sync::Once are not explored. The Python half rests on the shared core plus PyO3's exclusive borrow while the GIL is released; C19's driver adds a sampled (non-deciding) Python thread run. " + TRUSTED,
   ref="DESIGN.md §3 C18"),
 "C19": dict(
   engine="E4-external",
   technique="bounded-exhaustive enumeration of command-line inputs and Python API call sequences run through the real binary / extension out of process, differential against the in-process library (explicit enumeration of operation sequences up to a depth)",
   text="CLI: every file of at most 2 (thorough 3) lines over seven line bodies x LF / CRLF / missing final terminator / lone CR x nine flag sets and I/O routes (file, stdin, -o), one line beyond 65535 bytes, and a 600-word dictionary with 600 parts of speech is fed to the real `sudachi` binary built from /repo; stdout must equal byte for byte what the library and the documented column / wakati format give for each line without its terminator. Python: every call sequence up to depth 2 (thorough 3) over 31 operations (tokenize with and without per-call mode and out=, a failing call with per-call mode, Morpheme.split with and without out=, lookup with and without out=, holding a morpheme across list reuse) for five tokenizer configurations on the real extension: results equal the library's, text[begin:end] is the raw surface, per-call modes do not stick, the interpreter finishes. The CLI is also run over configurations that list one user dictionary several times, and a Python Dictionary configured with a projection is driven with and without overrides ('surface' included).",
   note="Subjects run out of process (E4); the pre_tokenizer path needs the `tokenizers` package, which is not installed, and is not exercised; the Python thread run is a sample. " + TRUSTED,
   ref="DESIGN.md §3 C19"),
 "C20": dict(
   technique="explicit-state model checking (stateright BFS) over parameter deviations (baseline, all singles, all pairs) of a configuration with every OOV provider type and the inhibit-connection plugin, four matrix shapes, real loader + analysis with debug assertions",
   text="For matrices 1x1, 3x3, 2x3 and 3x2 every single and every pair of deviations of leftId / rightId / cost of SimpleOov and RegexOov, the ids and cost of an unk.def line and both members of an inhibitPair over {-1,0,n-1,n,n+1,m-1,m,m+1,32767,32768,65535,65536,-32768,-32769}, and POS absent x userPOS allow/forbid: loading must fail exactly when the reference (the dimension a value indexes in ConnectionMatrix::cost, i16 range, POS existence in setup order) says so; after a successful load only the inhibited cell differs from the matrix text and probes that use every provider at sentence start, middle and end analyse without panic. Sequences of loads alternate between a 9x9- and a 3x3-matrix dictionary over one unchanged set of configuration files; each load is judged by its own dictionary.",
   ref="DESIGN.md §3 C20"),
}

NOT_YET = {}
ALL = ["C%02d" % i for i in range(1, 21)]

def main():
    checks = []
    for pid in ALL:
        if pid not in CHECKS:
            continue
        c = CHECKS[pid]
        checks.append({
            "property_id": pid,
            "quick_cmd": "./check %s --tier quick" % pid,
            "thorough_cmd": "./check %s --tier thorough" % pid,
            "evidence_file": "/verif/evidence/%s.json" % pid,
            "replay_cmd_template": "./check %s --replay {path}" % pid,
            "engine": c.get("engine", "E1-stateright"),
            "level_claimed": {"category": c.get("level", "model_checking"), "text": c["text"], "design_ref": c["ref"]},
            "level_note": c.get("note", TRUSTED),
            "technique": c["technique"],
        })
    na = [{"property_id": p, "reason": NOT_YET.get(p, "check not built yet in this tree (planned, see DESIGN.md §3); not claimed until it runs")}
          for p in ALL if p not in CHECKS]
    m = {
        "version": 1,
        "setup_cmd": "./check --setup",
        "hooks": {
            "guard": "cargo feature \"verif\" of crate sudachi (off by default)",
            "enable": "the harness crate depends on sudachi = { path = \"/repo/sudachi\", features = [\"verif\"] }; every check command runs `cargo build --offline --profile verif` first, so it rebuilds from /repo's working tree",
            "baseline_off_cmd": "cd /repo && cargo test --workspace --no-fail-fast --offline",
            "source_commits": HOOK_COMMITS,
            "add_only": True,
        },
        "engines": [
            {"name": "E1-stateright", "path": "harness/src/common/explore.rs", "serves_properties": [p for p in ALL if p in CHECKS and CHECKS[p].get("engine", "E1-stateright").startswith("E1-stateright")],
             "kind_free_text": "explicit-state search (stateright 0.31 BFS/DFS, 16 threads) over histories; every transition re-executes the real sudachi code; always-property = agreement with a reference model"},
            {"name": "E2-schedules", "path": "harness/src/checks/c18.rs", "serves_properties": ["C18"],
             "kind_free_text": "hand-rolled CHESS-style stateless explorer: cooperative scheduler over sched_point hooks, iterative preemption bounding, replay-twice determinism check"},
            {"name": "E3-sink-faults", "path": "harness/src/checks/c06.rs", "serves_properties": ["C06"],
             "kind_free_text": "Write implementation failing (error / Ok(0) / one byte per call) at every byte offset of the compiler output"},
            {"name": "E4-external", "path": "harness/src/checks/c19.rs", "serves_properties": ["C19"],
             "kind_free_text": "bounded-exhaustive inputs / call sequences through the real sudachi binary and sudachipy extension in sub-processes, differential against the library"},
        ],
        "checks": checks,
        "not_applicable": na,
        "notes": "Exit codes: 0 held (KNOWN-FINDING lines allowed), 1 + VIOLATION line, 2 machinery failure. Known findings: /verif/known_findings.json.",
    }
    json.dump(m, open(os.path.join(ROOT, "MANIFEST.json"), "w"), indent=1, ensure_ascii=False)
    print("wrote MANIFEST.json with", len(checks), "checks,", len(na), "not claimed")

if __name__ == "__main__":
    main()
