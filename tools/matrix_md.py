#!/usr/bin/env python3
"""matrix_md.py <results.tsv>: render seeded/MATRIX.md from a run of tools' seeds x checks matrix
(lines: seed \t check \t exit code \t first failure kind)."""
import sys, collections
rows = collections.OrderedDict()
checks = []
for line in open(sys.argv[1]):
    f = line.rstrip("\n").split("\t")
    if len(f) < 3:
        continue
    seed, chk, rc = f[0], f[1], f[2]
    kind = f[3] if len(f) > 3 else ""
    rows.setdefault(seed, {})[chk] = (rc, kind)
    if chk not in checks:
        checks.append(chk)
own = lambda s: s.split("-")[0]
out = ["# Seeds x checks (quick tier)", "",
       "Each kept seed was applied to a private worktree of /repo and run against the check of its own property and the two",
       "broadest checks (C01, C10). `1 kind` = VIOLATION reported (first failure kind), `0` = not reported, `2` = machinery exit.", "",
       "| seed | own check | C01 | C10 |", "|---|---|---|---|"]
def cell(v):
    if v is None:
        return "-"
    rc, kind = v
    return f"{rc} {kind}".strip()
miss = []
for seed, d in rows.items():
    o = own(seed)
    out.append(f"| {seed} | {cell(d.get(o))} | {cell(d.get('C01')) if o != 'C01' else '(own)'} | {cell(d.get('C10')) if o != 'C10' else '(own)'} |")
    if d.get(o, ("?", ""))[0] != "1":
        miss.append(seed)
out += ["", f"Seeds not reported by their own check: {', '.join(miss) if miss else 'none'}."]
open("/verif/seeded/MATRIX.md", "w").write("\n".join(out) + "\n")
print("seeds", len(rows), "missed by own check:", miss)
