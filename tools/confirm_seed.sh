#!/bin/bash
# confirm_seed.sh <PROP> <N> : in the scratch worktree /tmp/wt-<PROP>, confirm that seed N
#  (a) compiles and passes the existing suite, (b) its demo fails with the patch and passes without.
# Output: /tmp/wt-<PROP>/SEED/seed<N>/confirm.log  (last line: CONFIRMED or NOT-CONFIRMED: reason)
P=$1; N=$2; PFX=${3:-/tmp/wt-}; WT=$PFX$P; S=$WT/SEED/seed$N; LOG=$S/confirm.log
export CARGO_NET_OFFLINE=true CARGO_TARGET_DIR=$WT/target
cd $WT || exit 2
git checkout -q -- . ; rm -f sudachi/tests/zz_seed_demo.rs
: > $LOG
git apply --check $S/patch.diff >>$LOG 2>&1 || { echo "NOT-CONFIRMED: patch does not apply" >>$LOG; exit 1; }
git apply $S/patch.diff
cargo test --workspace --no-fail-fast --offline >$S/suite_confirm.txt 2>&1
PASS=$(grep -E "^test result" $S/suite_confirm.txt | awk '{p+=$4; f+=$6} END {print p" "f}')
echo "suite with patch: passed/failed = $PASS" >>$LOG
if ls $S/*.rs >/dev/null 2>&1; then
  DEMO=$(ls $S/*.rs | head -1); cp $DEMO sudachi/tests/zz_seed_demo.rs
  cargo test -p sudachi --offline --test zz_seed_demo >$S/demo_with_confirm.txt 2>&1; RW=$?
  git apply -R $S/patch.diff
  cargo test -p sudachi --offline --test zz_seed_demo >$S/demo_without_confirm.txt 2>&1; RO=$?
  rm -f sudachi/tests/zz_seed_demo.rs
  echo "demo exit with patch: $RW, without: $RO" >>$LOG
else
  echo "no .rs demo found: $(ls $S)" >>$LOG; RW=x; RO=x
  git apply -R $S/patch.diff
fi
git checkout -q -- .
F=$(echo $PASS | awk '{print $2}')
if [ "$F" = "0" ] && [ "$RW" != "0" ] && [ "$RO" = "0" ]; then echo CONFIRMED >>$LOG; else echo "NOT-CONFIRMED" >>$LOG; fi
tail -3 $LOG
